"""C16 - state variables read and write Home Assistant state faithfully.

Ghost model of hass.states (assumed contract of get / async_set / async_remove):
    hs_val  : entity -> value            hs_attr : entity -> (attribute name -> value)      (same domain)
Units (state.py): State.set, setattr, get, exist, delete, getattr, StateVal.__new__.
"""
from __future__ import annotations

import z3

from pyvc.framework import Harness
from pyvc.interp import SymPySet
from pyvc.values import name_axioms_for, nparts, part, join_fn, part_const
from .common import *  # noqa
from .tables import mk_names, entity_of

PROPERTY = "C16"
ST_PY = f"{PKG}/state.py"
CONTEXT_TOK = PyTypeTok("Context")
VIRTUAL = ("entity_id", "last_changed", "last_updated", "last_reported")

ASSUMPTIONS = [
    A_LOG, A_NOALIAS,
    "hass.states behaves as a map entity -> (value, attributes): get returns None or a state object whose "
    "attributes are the stored ones, async_set replaces value and attributes with the ones given (HA keeps its own "
    "copy of the attribute dict), async_remove deletes and returns whether the entity existed",
    "Home Assistant does not mutate attribute values in place",
    "entity ids and attribute names are dot-free components of a dotted name (every string is such a sequence)",
    "a StateVal instance keeps all instance attributes (real attributes and the four virtual fields) in one "
    "dictionary (CPython __dict__), modelled as one symbolic map; lookup of str/StateVal *class* attributes "
    "(methods) is abstracted by an uninterpreted predicate",
    "values are opaque objects; str(StateVal) is its string value",
    "State.service2args is empty in these harnesses (entity service methods are C12's outgoing-call contracts)",
]
NOT_DECIDED = ["routing of DOMAIN.name syntax inside the interpreter (ast_attribute / recurse_assign): follows from "
               "C01/C03 lookup obligations; not re-proved here"]
SHAPE_BOUNDS = {"keyword attributes in one State.set call": "<= 1 symbolic + optional context keyword"}
LEVEL_TEXT = ("Proof, unbounded in the contents of the state machine and of attribute dictionaries: each State "
              "operation is verified against the map model for all entity / attribute names and values, on every "
              "argument-combination shape of State.set; snapshot immutability is a frame condition on the snapshot's "
              "dictionary.")


def setup(eng):
    it = Interpreter(eng)
    w = World(eng)
    hs_val = Store(eng, "hass.states.value", TMap(NameS, TOpt(ObjS)))
    hs_attr = Store(eng, "hass.states.attributes", TMap(NameS, TMap(PartS, TScalar(ObjS))))
    eng.assume(hs_val.cols["dom"] == hs_attr.cols["dom"])
    last = Store(eng, "State.notify_var_last", TMap(NameS, TOpt(ObjS)))
    notify = Store(eng, "State.notify", TMap(NameS, TMap(QueueS, TScalar(ObjS))))
    t2ctx = Store(eng, "task2context", TMap(TaskS, TScalar(CtxS, pytype=CONTEXT_TOK)))
    cur = z3.Const("cur_task", TaskS)
    is_class_attr = z3.Function("is_str_or_StateVal_class_attribute", PartS, z3.BoolSort())
    class_attr_val = z3.Function("class_attribute_value", PartS, ObjS)

    def states_get(i, name):
        name = name if isinstance(name, DName) else i.to_sym_str(name, DName(None))
        if not eng.branch(z3.Select(hs_val.cols["dom"], name.t), "entity-exists"):
            return None
        st = Rec(fields={
            "state": hs_val.view().getitem(name), "attributes": hs_attr.view().getitem(name),
            "entity_id": name, "last_updated": SV(z3.Const("last_updated", ObjS)),
            "last_changed": SV(z3.Const("last_changed", ObjS)), "last_reported": SV(z3.Const("last_reported", ObjS)),
        }, name="CoreState")
        return st

    def async_set(i, name, value, attrs=None, context=None, **kw):
        name = name if isinstance(name, DName) else i.to_sym_str(name, DName(None))
        w.emit("async_set", name, value, attrs, context)
        hs_val.view().setitem(name, value)
        if isinstance(attrs, dict):
            hs_attr.view().setitem(name, {})
            av = hs_attr.view().getitem(name)
            for k, v in attrs.items():
                av.setitem(k.key if type(k).__name__ == "SymKey" else PartV(part_const(k)), v)
        else:
            # HA copies the dict it is given
            for c in hs_attr.typ.val.columns():
                full = "." + c
                hs_attr.cols[full] = z3.Store(hs_attr.cols[full], name.t, attrs.col(c))
            hs_attr.cols["dom"] = z3.Store(hs_attr.cols["dom"], name.t, z3.BoolVal(True))

    def async_remove(i, name, context=None):
        name = name if isinstance(name, DName) else i.to_sym_str(name, DName(None))
        w.emit("async_remove", name, context)
        existed = z3.Select(hs_val.cols["dom"], name.t)
        hs_val.view().delitem(name)
        hs_attr.view().delitem(name)
        return SV(existed)

    hass = Rec(fields={"states": Rec(fields={"get": states_get, "async_set": async_set, "async_remove": async_remove})},
               name="hass")

    def str_new(i, cls, value=""):
        if cls.name == "str":
            # plain str(x): the string value of x
            if isinstance(value, Rec) and "__str__" in value._fields:
                return i.call(value._fields["__str__"], [], {})
            return value
        r = Rec(cls=cls, fields={"_strvalue": value}, name="StateVal")
        r._fields["__str__"] = lambda i2: r._fields["_strvalue"]

        def class_attr(i2, name):
            if i2.eng.branch(is_class_attr(name.t), "class-attr"):
                return SV(class_attr_val(name.t))
            return None
        r._fields["__class_attr__"] = class_attr
        return r

    STR = ClassRec("str", attrs={"__new__": str_new})
    Fn = Rec(fields={"task2context": t2ctx.view()}, name="Function")
    stubs = {"_LOGGER": logger_stub(), "hass": hass, "Function": Fn, "Context": CONTEXT_TOK, "str": STR,
             "asyncio": asyncio_stub(w, cur),
             "STATE_CALLABLE_ATTRS": SymPySet(["as_float", "as_int", "as_bool", "as_round", "as_datetime", "is_unknown",
                                               "is_unavailable", "has_value"])}
    mod = Module(it, ST_PY, stubs=stubs,
                 class_state={"State": {"notify": notify, "notify_var_last": last, "hass": hass, "service2args": {},
                                        "persisted_vars": {}}})
    # `str(value)` inside State.set must see StateVal records
    S = dict(hs_val=hs_val, hs_attr=hs_attr, last=last, notify=notify, t2ctx=t2ctx, cur=cur, hass=hass,
             is_class_attr=is_class_attr)
    return it, w, mod, mod.env.vars["State"], S


def ent(eng, tag="e"):
    d, e = z3.Const(f"{tag}_dom", PartS), z3.Const(f"{tag}_name", PartS)
    t = join_fn(2)(d, e)
    for ax in name_axioms_for(t):
        eng.assume(ax)
    return DName(t)


def attrs_eq_at(A, B, a):
    """attribute dictionaries (dom, val) agree at attribute a"""
    return z3.And(z3.Select(A[0], a) == z3.Select(B[0], a),
                  z3.Implies(z3.Select(A[0], a), z3.Select(A[1], a) == z3.Select(B[1], a)))


def attr_row(snap, e):
    return (z3.Select(snap[".dom"], e), z3.Select(snap["..v"], e))


def frame_other_entities(eng, U, S, V0, A0, e):
    hv, ha = S["hs_val"], S["hs_attr"]
    eng.oblige(f"{U}/frame.other-entities-unchanged", Forall([NameS, PartS], lambda n, a: z3.Implies(n != e, z3.And(
        z3.Select(hv.cols["dom"], n) == z3.Select(V0["dom"], n),
        z3.Select(hv.cols[".v"], n) == z3.Select(V0[".v"], n), z3.Select(hv.cols[".none"], n) == z3.Select(V0[".none"], n),
        z3.Select(ha.cols["dom"], n) == z3.Select(A0["dom"], n),
        attrs_eq_at(attr_row(ha.cols, n), attr_row(A0, n), a))), "na"))


# ----------------------------------------------------------------------------------------------------------
def h_set(eng):
    it, w, mod, State, S = setup(eng)
    hv, ha = S["hs_val"], S["hs_attr"]
    U = "C16/State.set"
    e = ent(eng)
    V0, A0 = hv.snapshot(), ha.snapshot()
    val_kind = ["omitted", "plain", "snapshot"][eng.choose(3, "value")]
    na_kind = ["omitted", "given"][eng.choose(2, "new_attributes")]
    kw_kind = ["none", "attr", "context-obj", "context-other"][eng.choose(4, "kwargs")]
    args = [e]
    kwargs = {}
    newval = z3.Const("new_value", ObjS)
    snap_attrs = Store(eng, "snapshot.__dict__", TMap(PartS, TScalar(ObjS)))
    snapval = z3.Const("snapshot_value", ObjS)
    if val_kind == "plain":
        args.append(SV(newval))
    elif val_kind == "snapshot":
        sv = it.call(mod.env.vars["str"].attrs["__new__"], [mod.env.vars["StateVal"], SV(snapval)], {})
        sv._fields["__symdict__"] = snap_attrs.view()
        args.append(sv)
    given_attrs = Store(eng, "given_new_attributes", TMap(PartS, TScalar(ObjS)))
    G0 = given_attrs.snapshot()
    if na_kind == "given":
        kwargs["new_attributes"] = given_attrs.view()
    kname, kval = z3.Const("kw_name", PartS), z3.Const("kw_value", ObjS)
    if kw_kind == "attr":
        from pyvc.stmts import SymKey
        kwargs[SymKey(PartV(kname))] = SV(kval)
        eng.assume(z3.And(kname != part_const("context"), kname != part_const("new_attributes"), kname != part_const("value"),
                          kname != part_const("var_name")))
    elif kw_kind == "context-obj":
        kwargs["context"] = SV(z3.Const("explicit_ctx", CtxS), pytype=CONTEXT_TOK)
    elif kw_kind == "context-other":
        kwargs["context"] = SV(z3.Const("ctx_as_attribute_value", ObjS))
    existed = z3.Select(V0["dom"], e.t)
    SD0 = snap_attrs.snapshot()
    k, v = run_catching(it, lambda: it.call(it.getattr_(State, "set"), args, kwargs))
    eng.cover(f"exit:{k}")
    sig = f"value={val_kind},new_attributes={na_kind},kwargs={kw_kind}"

    def W(ob):
        if ob.status == "refuted":
            ob.witness = {"signature": sig, "value": val_kind, "new_attributes": na_kind, "kwargs": kw_kind,
                          "existed": bool(ob._z3model.eval(existed, model_completion=True))}
        return ob
    eng.oblige(f"{U}/post.no-exception-for-domain.entity-names", k == "ok")
    if k != "ok":
        return
    sets = w.events("async_set")
    eng.oblige(f"{U}/post.exactly-one-state-write", len(sets) == 1)
    # value
    now_val = (z3.Select(hv.cols[".v"], e.t), z3.Select(hv.cols[".none"], e.t))
    if val_kind == "plain":
        W(eng.oblige(f"{U}/post.value-is-the-given-value", z3.And(z3.Not(now_val[1]), now_val[0] == newval)))
    elif val_kind == "snapshot":
        W(eng.oblige(f"{U}/post.value-is-the-snapshots-string-value", z3.And(z3.Not(now_val[1]), now_val[0] == snapval)))
    else:
        W(eng.oblige(f"{U}/post.omitted-value-is-kept", z3.Implies(existed, z3.And(
            now_val[1] == z3.Select(V0[".none"], e.t), now_val[0] == z3.Select(V0[".v"], e.t)))))
    # attributes: base dictionary, then keywords merged
    new_row = attr_row(ha.cols, e.t)
    if na_kind == "given":
        base = (G0["dom"], G0[".v"])
        base_ok = z3.BoolVal(True)
    elif val_kind == "snapshot":
        # attributes of the snapshot minus the four virtual fields
        sd = SD0
        virt = lambda a: z3.Or(*[a == part_const(x) for x in VIRTUAL])
        base = (z3.Lambda([z3.Const("a!", PartS)], z3.And(z3.Select(sd["dom"], z3.Const("a!", PartS)), z3.Not(virt(z3.Const("a!", PartS))))), sd[".v"])
        base_ok = z3.BoolVal(True)
    else:
        old = attr_row(A0, e.t)
        base = (z3.If(existed, old[0], z3.K(PartS, z3.BoolVal(False))), old[1])
        base_ok = z3.BoolVal(True)
    if kw_kind in ("attr", "context-other"):
        kn = kname if kw_kind == "attr" else part_const("context")
        kv = kval if kw_kind == "attr" else z3.Const("ctx_as_attribute_value", ObjS)
        want = (z3.Store(base[0], kn, z3.BoolVal(True)), z3.Store(base[1], kn, kv))
    else:
        want = base
    W(eng.oblige(f"{U}/post.attributes-are-base-plus-keywords",
                 Forall([PartS], lambda a: attrs_eq_at(new_row, want, a), "a")))
    # the caller's dictionaries are not modified
    eng.oblige(f"{U}/frame.given-dictionary-not-modified", z3.And(given_attrs.cols["dom"] == G0["dom"], given_attrs.cols[".v"] == G0[".v"]))
    if val_kind == "snapshot":
        eng.oblige(f"{U}/frame.snapshot-not-modified", z3.And(snap_attrs.cols["dom"] == SD0["dom"], snap_attrs.cols[".v"] == SD0[".v"]))
    frame_other_entities(eng, U, S, V0, A0, e.t)
    # context
    ctx = sets[0][4] if sets else None
    if kw_kind == "context-obj":
        eng.oblige(f"{U}/post.explicit-context-used", ctx is kwargs["context"])
    else:
        has = z3.Select(S["t2ctx"].cols["dom"], S["cur"])
        ctx2 = it.split_none(ctx) if isinstance(ctx, SV) else ctx
        eng.oblige(f"{U}/post.default-context-is-the-runs-context",
                   z3.And(has, ctx2.t == z3.Select(S["t2ctx"].cols[".v"], S["cur"])) if ctx2 is not None else z3.Not(has))


def replay_set(wj):
    from replay.native import run_native
    return run_native("c16_state_set", wj)


def h_set_badname(eng):
    it, w, mod, State, S = setup(eng)
    U = "C16/State.set"
    n = mk_names(eng, 1, "badname")[0]
    eng.assume(nparts(n.t) != 2)
    k, v = run_catching(it, lambda: it.call(it.getattr_(State, "set"), [n, SV(z3.Const("v", ObjS))], {}))
    eng.cover("ran")
    eng.oblige(f"{U}/post.NameError-for-names-that-are-not-domain.entity", k == "exc" and v.cls.name == "NameError" and w.count("async_set") == 0)


def h_setattr(eng):
    it, w, mod, State, S = setup(eng)
    hv, ha = S["hs_val"], S["hs_attr"]
    U = "C16/State.setattr"
    n = mk_names(eng, 1, "attrname")[0]
    V0, A0 = hv.snapshot(), ha.snapshot()
    # any object, or None (an attribute may be SET TO None: it then exists, with that value)
    from pyvc.values import obj_of
    if eng.choose(2, "value-is-None"):
        val, arg = obj_of(None), None
    else:
        val = z3.Const("attr_value", ObjS)
        arg = SV(val)
    k, v = run_catching(it, lambda: it.call(it.getattr_(State, "setattr"), [n, arg], {}))
    eng.cover(f"exit:{k}")
    three = nparts(n.t) == 3
    e = entity_of(n.t)
    a = part(n.t, 2)
    exists = z3.Select(V0["dom"], e)
    if k == "exc":
        eng.oblige(f"{U}/post.NameError-iff-bad-name-or-missing-entity",
                   z3.And(v.cls.name == "NameError", z3.Or(z3.Not(three), z3.Not(exists)), w.count("async_set") == 0))
        return
    eng.oblige(f"{U}/post.NameError-iff-bad-name-or-missing-entity", z3.And(three, exists))
    # reserved keyword names (context / value / new_attributes / var_name) are outside the statement's attribute names
    eng.assume(z3.And(*[a != part_const(x) for x in ("context", "value", "new_attributes", "var_name")]))
    eng.oblige(f"{U}/post.value-kept", z3.And(z3.Select(hv.cols[".v"], e) == z3.Select(V0[".v"], e),
                                               z3.Select(hv.cols[".none"], e) == z3.Select(V0[".none"], e)))
    old = attr_row(A0, e)
    want = (z3.Store(old[0], a, z3.BoolVal(True)), z3.Store(old[1], a, val))
    eng.oblige(f"{U}/post.only-that-attribute-changes", Forall([PartS], lambda x: attrs_eq_at(attr_row(ha.cols, e), want, x), "x"))
    frame_other_entities(eng, U, S, V0, A0, e)


def h_get(eng):
    it, w, mod, State, S = setup(eng)
    hv, ha = S["hs_val"], S["hs_attr"]
    U = "C16/State.get"
    n = mk_names(eng, 1, "name")[0]
    V0, A0 = hv.snapshot(), ha.snapshot()
    k, v = run_catching(it, lambda: it.call(it.getattr_(State, "get"), [n], {}))
    eng.cover(f"exit:{k}")
    np_ = nparts(n.t)
    e = entity_of(n.t)
    exists = z3.Select(V0["dom"], e)
    eng.oblige(f"{U}/frame.read-only", z3.And(hv.cols["dom"] == V0["dom"], hv.cols[".v"] == V0[".v"], ha.cols["dom"] == A0["dom"],
                                              ha.cols[".dom"] == A0[".dom"], ha.cols["..v"] == A0["..v"]))
    if k == "exc":
        if v.cls.name == "NameError":
            eng.oblige(f"{U}/post.NameError-iff-bad-name-or-missing-entity", z3.Or(z3.And(np_ != 2, np_ != 3), z3.Not(exists)))
        else:
            a = part(n.t, 2)
            eng.oblige(f"{U}/post.AttributeError-iff-attribute-missing",
                       z3.And(v.cls.name == "AttributeError", np_ == 3, exists, z3.Not(z3.Select(z3.Select(A0[".dom"], e), a)),
                              z3.Not(z3.Or(*[a == part_const(x) for x in VIRTUAL])), z3.Not(S["is_class_attr"](a))))
        return
    eng.oblige(f"{U}/post.NameError-iff-bad-name-or-missing-entity", z3.And(z3.Or(np_ == 2, np_ == 3), exists))
    if isinstance(v, Rec) and v._fields.get("__symdict__") is not None:
        # snapshot: string value + copy of the attributes + four virtual fields
        sd = v._fields["__symdict__"]
        sv_ = v._fields["_strvalue"]
        eng.oblige(f"{U}/post.snapshot-value-is-current-value", z3.And(
            np_ == 2, sv_.t == z3.Select(V0[".v"], e),
            (sv_.none if sv_.none is not None else z3.BoolVal(False)) == z3.Select(V0[".none"], e)))
        virt = lambda x: z3.Or(*[x == part_const(y) for y in VIRTUAL])
        eng.oblige(f"{U}/post.snapshot-carries-attributes-and-virtual-fields", Forall([PartS], lambda x: z3.And(
            z3.Implies(virt(x), z3.Select(sd.col("dom"), x)),
            z3.Implies(z3.Not(virt(x)), z3.And(z3.Select(sd.col("dom"), x) == z3.Select(z3.Select(A0[".dom"], e), x),
                                                z3.Implies(z3.Select(sd.col("dom"), x), z3.Select(sd.col(".v"), x) == z3.Select(z3.Select(A0["..v"], e), x))))), "x"))
        # the virtual fields are those of the state object, also when the entity has an ATTRIBUTE of the same name (a group's
        # attribute entity_id, a template sensor's last_changed): the virtual field wins
        ob = eng.oblige(f"{U}/post.virtual-fields-are-those-of-the-state-object", z3.And(*[
            z3.Select(sd.col(".v"), part_const(y)) == z3.Const(y, ObjS) for y in ("last_updated", "last_changed", "last_reported")]))
        if ob.status == "refuted":
            ob.witness = {"signature": "attribute-shadows-virtual-field"}
        eng.oblige(f"{U}/post.snapshot-is-a-copy-not-an-alias", sd.store is not ha)
        # a later write to the entity does not change the captured snapshot
        D0 = (sd.col("dom"), sd.col(".v"))
        it.call(it.getattr_(State, "set"), [DName(e), SV(z3.Const("later_value", ObjS))], {"later_attr": SV(z3.Const("later_attr_value", ObjS))})
        eng.oblige(f"{U}/post.captured-snapshot-never-changes", z3.And(sd.col("dom") == D0[0], sd.col(".v") == D0[1]))
        # getattr(snapshot) returns the real attributes and leaves the snapshot intact
        k2, d = run_catching(it, lambda: it.call(it.getattr_(State, "getattr"), [v], {}))
        eng.oblige("C16/State.getattr/post.no-exception", k2 == "ok")
        if k2 == "ok":
            eng.oblige("C16/State.getattr/post.snapshot-attributes-without-virtual-fields", Forall([PartS], lambda x: z3.And(
                z3.Select(d.col("dom"), x) == z3.And(z3.Select(D0[0], x), z3.Not(virt(x))),
                z3.Implies(z3.Select(d.col("dom"), x), z3.Select(d.col(".v"), x) == z3.Select(D0[1], x))), "x"))
        ob = eng.oblige("C16/State.getattr/frame.snapshot-not-modified", z3.And(sd.col("dom") == D0[0], sd.col(".v") == D0[1]))
        if ob.status == "refuted":
            ob.witness = {"signature": "getattr-mutates-snapshot"}
    else:
        a = part(n.t, 2)
        in_attrs = z3.Select(z3.Select(A0[".dom"], e), a)
        eng.oblige(f"{U}/post.attribute-value", z3.And(np_ == 3, z3.Implies(
            z3.And(in_attrs, z3.Not(z3.Or(*[a == part_const(y) for y in VIRTUAL]))),
            it.eq(v, SV(z3.Select(z3.Select(A0["..v"], e), a))) if isinstance(v, SV) else False)))


def replay_getattr(wj):
    from replay.native import run_native
    if wj.get("signature") == "attribute-shadows-virtual-field":
        return run_native("c16_virtual_field_shadow", wj)
    return run_native("c16_getattr_snapshot", wj)


def h_exist(eng):
    it, w, mod, State, S = setup(eng)
    hv, ha = S["hs_val"], S["hs_attr"]
    U = "C16/State.exist"
    n = mk_names(eng, 1, "name")[0]
    V0, A0 = hv.snapshot(), ha.snapshot()
    k, v = run_catching(it, lambda: it.call(it.getattr_(State, "exist"), [n], {}))
    eng.cover("ran")
    np_ = nparts(n.t)
    e = entity_of(n.t)
    a = part(n.t, 2)
    ex = z3.Select(V0["dom"], e)
    callable_attr = z3.Or(*[a == part_const(x) for x in ("as_float", "as_int", "as_bool", "as_round", "as_datetime",
                                                         "is_unknown", "is_unavailable", "has_value")])
    want = z3.Or(z3.And(np_ == 2, ex), z3.And(np_ == 3, ex, z3.Or(z3.Select(z3.Select(A0[".dom"], e), a),
                                                                     z3.Or(*[a == part_const(x) for x in VIRTUAL]), callable_attr)))
    vt = v.t if isinstance(v, SV) else z3.BoolVal(bool(v))
    eng.oblige(f"{U}/post.agrees-with-the-state-machine", z3.And(k == "ok", vt == want))


def h_delete(eng):
    it, w, mod, State, S = setup(eng)
    hv, ha, last = S["hs_val"], S["hs_attr"], S["last"]
    U = "C16/State.delete"
    n = mk_names(eng, 1, "name")[0]
    V0, A0 = hv.snapshot(), ha.snapshot()
    k, v = run_catching(it, lambda: it.call(it.getattr_(State, "delete"), [n], {}))
    eng.cover(f"exit:{k}")
    np_ = nparts(n.t)
    e = entity_of(n.t)
    a = part(n.t, 2)
    ex = z3.Select(V0["dom"], e)
    has_attr = z3.Select(z3.Select(A0[".dom"], e), a)
    if k == "exc":
        if v.cls.name == "AttributeError":
            eng.oblige(f"{U}/post.AttributeError-iff-attribute-missing", z3.And(np_ == 3, ex, z3.Not(has_attr)))
        else:
            eng.oblige(f"{U}/post.NameError-iff-bad-name-or-missing-entity",
                       z3.And(v.cls.name == "NameError", z3.Or(z3.And(np_ != 2, np_ != 3), z3.Not(ex))))
        eng.oblige(f"{U}/post.failed-delete-changes-nothing", z3.And(
            hv.cols["dom"] == V0["dom"], ha.cols["dom"] == A0["dom"], ha.cols[".dom"] == A0[".dom"], ha.cols["..v"] == A0["..v"]))
        return
    eng.oblige(f"{U}/post.NameError-iff-bad-name-or-missing-entity", z3.And(z3.Or(np_ == 2, np_ == 3), ex))
    if eng.branch(np_ == 2, "entity-delete"):
        eng.oblige(f"{U}/post.entity-removed", z3.Not(z3.Select(hv.cols["dom"], e)))
    else:
        eng.oblige(f"{U}/post.attribute-removed-value-and-others-kept", z3.And(
            has_attr, z3.Select(hv.cols["dom"], e), z3.Select(hv.cols[".v"], e) == z3.Select(V0[".v"], e)))
        old = attr_row(A0, e)
        want = (z3.Store(old[0], a, z3.BoolVal(False)), old[1])
        eng.oblige(f"{U}/post.only-that-attribute-removed", Forall([PartS], lambda x: attrs_eq_at(attr_row(ha.cols, e), want, x), "x"))
    frame_other_entities(eng, U, S, V0, A0, e)


def h_getattr_name(eng):
    it, w, mod, State, S = setup(eng)
    hv, ha = S["hs_val"], S["hs_attr"]
    U = "C16/State.getattr"
    n = mk_names(eng, 1, "name")[0]
    V0, A0 = hv.snapshot(), ha.snapshot()
    k, v = run_catching(it, lambda: it.call(it.getattr_(State, "getattr"), [n], {}))
    eng.cover(f"exit:{k}")
    two = nparts(n.t) == 2
    if k == "exc":
        eng.oblige(f"{U}/post.NameError-iff-not-domain.entity", z3.And(v.cls.name == "NameError", z3.Not(two)))
        return
    eng.oblige(f"{U}/post.NameError-iff-not-domain.entity", two)
    ex = z3.Select(V0["dom"], n.t)
    if v is None:
        eng.oblige(f"{U}/post.None-iff-missing-entity", z3.Not(ex))
    else:
        eng.oblige(f"{U}/post.None-iff-missing-entity", ex)
        eng.oblige(f"{U}/post.returns-a-copy-of-the-attributes", z3.And(
            v.store is not ha, v.col("dom") == z3.Select(A0[".dom"], n.t), v.col(".v") == z3.Select(A0["..v"], n.t)))


def bounded_random(seed_base, programs):
    def run(seed):
        from replay.native import run_native
        return run_native("c16_random_bounded", {"seed": seed_base + seed, "programs": programs}, timeout=900)
    return run


# ----------------------------------------------------------------------------------------------------------
# Function.get: which dotted names are functions / services (it is asked BEFORE the name is read as a state variable, so a
# wrong "yes" hides the entity).  Contract, for every history of calls: the answer depends on the functions table and on what
# Home Assistant says NOW (hass.services.has_service), and the call changes no class-level table.
# ----------------------------------------------------------------------------------------------------------
def h_function_get(eng):
    from . import C12 as c12
    U = "C16/Function.get"
    it, w, mod, Fn, S = c12.outgoing_setup(eng)
    shape = ["d.s", "one-part", "three-parts"][eng.choose(3, "name-shape")]
    registered = bool(eng.choose(2, "in-functions-table"))
    d, s_ = PartV(z3.Const("dom", PartS)), PartV(z3.Const("srv", PartS))
    if shape == "d.s":
        name = it.concat_str([d, ".", s_])
        key = name
    else:
        name = key = {"one-part": "porch", "three-parts": "a.b.c"}[shape]
    builtin = Rec(name="registered-function")
    builtin._fields["__call__"] = lambda i, *a, **k: None
    if registered:
        if shape == "d.s":
            name = key = "light.turn_on"
        Fn.attrs["functions"] = {key: builtin}
    answers = []

    def has_service(i, dom, srv):
        a = z3.Bool(f"has_service_{len(answers)}")
        answers.append((dom, srv, a))
        return SV(a)
    Fn.attrs["hass"]._fields["services"]._fields["has_service"] = has_service
    before = class_tables(Fn)
    results = []
    for n in range(2):
        n_asked = len(answers)
        k, v = run_catching(it, lambda: it.call(it.getattr_(Fn, "get"), [name], {}))
        eng.cover(f"call{n}:{k}")
        eng.oblige(f"{U}/post.no-exception", k == "ok")
        if k != "ok":
            return
        results.append(v)
        tag = "first-call" if n == 0 else "later-call"
        if registered:
            eng.oblige(f"{U}/post.{tag}.a-registered-function-is-returned", v is builtin)
            continue
        if shape != "d.s":
            eng.oblige(f"{U}/post.{tag}.only-domain-dot-service-names-are-services", v is None)
            continue
        asked = answers[n_asked:]
        ob = eng.oblige(f"{U}/post.{tag}.asks-home-assistant-now", len(asked) == 1 and bool(asked) and
                        z3.And(it.eq(asked[0][0], d), it.eq(asked[0][1], s_)) is not False)
        if ob.status == "refuted":
            ob.witness = {"signature": f"get:{tag}:not-asked", "what": "stale", "call": n}
        if len(asked) != 1:
            # no question was put to Home Assistant: the answer cannot follow the current registry.  A service wrapper for a
            # name Home Assistant does not know hides the state variable of that name.
            continue
        yes = asked[0][2]
        ob = eng.oblige(f"{U}/post.{tag}.a-service-wrapper-iff-the-service-exists-now", z3.Not(yes) if v is None else yes)
        if ob.status == "refuted":
            ob.witness = {"signature": f"get:{tag}:stale", "what": "stale", "call": n}
    after = class_tables(Fn)
    ob = eng.oblige(f"{U}/frame.no-class-level-table-is-written", before == after)
    if ob.status == "refuted":
        ob.witness = {"signature": "get:frame", "what": "stale", "changed": sorted(k for k in set(before) | set(after) if before.get(k) != after.get(k))}


def class_tables(cls_rec):
    """the concrete class-level dict / set / list attributes of a class record, as comparable snapshots"""
    out = {}
    for k, v in cls_rec.attrs.items():
        if isinstance(v, dict):
            out[k] = ("dict", tuple(sorted((repr(kk), id(vv)) for kk, vv in v.items())))
        elif isinstance(v, (list, set)):
            out[k] = (type(v).__name__, tuple(sorted(repr(x) for x in v)))
    return out


def replay_function_get(wj):
    from replay.native import run_native
    return run_native("c16_function_get", wj, timeout=120)


def harnesses():
    return [
        Harness("State.set", h_set, units=[(ST_PY, "State.set")], replay=replay_set),
        Harness("State.set.badname", h_set_badname, units=[(ST_PY, "State.set")]),
        Harness("State.setattr", h_setattr, units=[(ST_PY, "State.setattr"), (ST_PY, "State.set"), (ST_PY, "State.exist")]),
        Harness("State.get", h_get, units=[(ST_PY, "State.get"), (ST_PY, "StateVal.__new__"), (ST_PY, "State.getattr")], replay=replay_getattr),
        Harness("State.exist", h_exist, units=[(ST_PY, "State.exist")]),
        Harness("State.delete", h_delete, units=[(ST_PY, "State.delete"), (ST_PY, "State.set")]),
        Harness("State.getattr", h_getattr_name, units=[(ST_PY, "State.getattr")]),
        Harness("Function.get", h_function_get, units=[(f"{PKG}/function.py", "Function.get")], replay=replay_function_get),
        Harness("bounded.random-statements", bounded_random(0, 300), units=[(f"{PKG}/eval.py", "AstEval.ast_name"), (f"{PKG}/eval.py", "AstEval.ast_attribute"),
                (f"{PKG}/eval.py", "AstEval.recurse_assign"), (f"{PKG}/eval.py", "AstEval.ast_delete")], kind="bounded"),
    ] + [Harness(f"bounded.random-statements[thorough {k}/4]", bounded_random(100 * k, 1000), units=[(f"{PKG}/eval.py", "AstEval.ast_name"), (f"{PKG}/eval.py", "AstEval.ast_attribute"),
                 (f"{PKG}/eval.py", "AstEval.recurse_assign"), (f"{PKG}/eval.py", "AstEval.ast_delete")], kind="bounded", tier="thorough") for k in range(1, 5)]

"""Shared pieces of the sidecar contracts: sorts, assumed contracts of externals (asyncio, logging,
Home Assistant objects), ghost trace, yield points (ASYNC domain)."""
from __future__ import annotations

import z3

from pyvc.core import Forall, OutOfReach
from pyvc.interp import Coro, EXC, TYPES, Raised, exc, ExcVal
from pyvc.stmts import Interpreter, LoopSpec, PyModule
from pyvc.values import (SV, DName, PartV, Rec, ClassRec, Store, TMap, TSet, TScalar, TOpt, TStruct, USort, PyTypeTok,
                         NameS, PartS, Opaque)
from pyvc.loader import Module, number_loops, unit_info

PKG = "custom_components/pyscript"
TaskS = USort("Task")
QueueS = USort("Queue")
CtxS = USort("HassContext")
ObjS = USort("Obj")
StrS = z3.StringSort()
B = z3.BoolSort()

A_LOG = "A-LOG: calls on _LOGGER / logger objects are effect-free (argument expressions are still evaluated)"
A_NOALIAS = ("A-NOALIAS: inner dict/set values of the class-level tables are not shared between two keys "
             "(each is created fresh by the code under contract)")
A_COOP = ("A-COOP: asyncio is cooperative - code between two awaits is atomic; other tasks run only at awaits "
          "and preserve the declared shared invariants (checked for every mutator under contract)")
A_REAL = "A-REAL: Python floats are encoded as mathematical reals (no rounding, inf, nan)"


class World:
    """Per-path ghost state: effect trace, shared stores with invariants, yield-point policy."""

    def __init__(self, eng):
        self.eng = eng
        self.trace = []
        self.invariants = []  # callables () -> list of z3 Bool / Forall, evaluated on current stores
        self.shared = []  # stores havocked at a yield point
        self.stable = []  # callables (snapshot_before) -> list of facts surviving a yield
        self.yields = 0
        self.inv_name = "shared-invariant"
        self.check_inv_at_yield = True
        self.last_snap = {}
        self.yield_witness = None

    def emit(self, *event):
        self.trace.append(tuple(event))

    def count(self, kind):
        return sum(1 for e in self.trace if e[0] == kind)

    def events(self, kind):
        return [e for e in self.trace if e[0] == kind]

    def yield_point(self, label, cancellable=True, may_return=True):
        """An await of something that suspends: other tasks run; optionally CancelledError is raised here."""
        eng = self.eng
        self.yields += 1
        if self.check_inv_at_yield:
            for inv in self.invariants:
                for i, f in enumerate(inv()):
                    ob = eng.oblige(f"{self.inv_name}/at-yield", f, kind="yield")
                    if ob.status == "refuted" and self.yield_witness is not None:
                        ob.witness = dict(self.yield_witness, at=label)
        snaps = [s.snapshot() for s in self.shared]
        for s in self.shared:
            s.havoc(f"y{self.yields}")
        for inv in self.invariants:
            for f in inv():
                eng.assume(f)
        for st in self.stable:
            for f in st(snaps):
                eng.assume(f)
        self.last_snap = {s.name: s.snapshot() for s in self.shared}
        self.emit("yield", label)
        if cancellable:
            if not may_return:
                raise exc("CancelledError")
            if eng.choose(2, f"cancel@{label}") == 0:
                raise exc("CancelledError")


def logger_stub():
    def log(interp, *a, **k):
        return None
    f = {n: log for n in ("debug", "info", "warning", "error", "exception", "critical", "log")}
    f["isEnabledFor"] = lambda interp, level: False  # A-LOG: debug logging is off in the verified configuration
    return Rec(fields=f, name="logger")


def traceback_stub():
    return PyModule("traceback", {"format_exc": lambda i, *a: "<traceback>"})


def asyncio_stub(world, cur_task, sleep_returns=True):
    """Assumed contract of the asyncio names the units use."""

    def sleep(interp, duration=0):
        def th():
            world.emit("sleep", duration)
            world.yield_point("sleep", cancellable=True, may_return=sleep_returns)
            return None
        return Coro(th, "asyncio.sleep")

    attrs = {
        "current_task": lambda i: SV(cur_task),
        "sleep": sleep,
        "CancelledError": EXC["CancelledError"],
        "TimeoutError": EXC["TimeoutError"],
        "Task": PyTypeTok("Task"),
    }
    return PyModule("asyncio", attrs)


def run_catching(interp, thunk):
    """Run thunk(); returns ('ok', value) or ('exc', ExcVal)."""
    try:
        return "ok", thunk()
    except Raised as r:
        return "exc", r.exc


def forall_map_eq(sort, a, b, name="frame"):
    return Forall([sort], lambda k: z3.Select(a, k) == z3.Select(b, k), name)


def scan_writes(attr_names, exclude_units=()):
    """Mutator closure (DESIGN 2.4 ii): every syntactic write to <Class>.<attr> (assignment, del, augmented
    assignment, mutating method call) in the whole package, as (file, enclosing qualname, lineno, attr)."""
    import ast
    import os
    from pyvc import loader
    MUT = {"add", "discard", "remove", "pop", "clear", "update", "setdefault", "append", "extend", "popitem",
           "insert", "__setitem__", "__delitem__"}
    out = []
    root = os.path.join(loader.REPO, PKG)
    for dp, dn, fns in os.walk(root):
        for fn in fns:
            if not fn.endswith(".py"):
                continue
            rel = os.path.relpath(os.path.join(dp, fn), loader.REPO)
            tree, _ = loader.parse_file(rel)

            def base_attr(n):
                # strip subscripts: cls.notify[x][y] -> attribute node cls.notify
                while isinstance(n, ast.Subscript):
                    n = n.value
                if isinstance(n, ast.Attribute) and n.attr in attr_names and isinstance(n.value, ast.Name) \
                        and n.value.id in attr_names[n.attr]:
                    return n.attr
                return None

            def visit(node, qual):
                for ch in ast.iter_child_nodes(node):
                    q = qual
                    if isinstance(ch, (ast.FunctionDef, ast.AsyncFunctionDef, ast.ClassDef)):
                        q = f"{qual}.{ch.name}" if qual else ch.name
                    hit = None
                    if isinstance(ch, (ast.Assign, ast.AugAssign, ast.AnnAssign)):
                        tg = ch.targets if isinstance(ch, ast.Assign) else [ch.target]
                        for t in tg:
                            a = base_attr(t)
                            if a:
                                hit = a
                    elif isinstance(ch, ast.Delete):
                        for t in ch.targets:
                            a = base_attr(t)
                            if a:
                                hit = a
                    elif isinstance(ch, ast.Call) and isinstance(ch.func, ast.Attribute) and ch.func.attr in MUT:
                        a = base_attr(ch.func.value)
                        if a:
                            hit = a
                    if hit:
                        out.append((rel, qual, ch.lineno, hit))
                    visit(ch, q)

            visit(tree, "")
    return out


def mutator_closure_harness(prop, label, attrs, allowed):
    """Obligation '<prop>/mutator-closure/<label>': every syntactic write to the given class-level tables lies in a
    unit that is under contract (allowed = set of qualified names)."""
    from pyvc.framework import Harness

    def h(eng):
        writes = scan_writes(attrs)
        outside = sorted({(f, q, ln, a) for f, q, ln, a in writes if q not in allowed})
        eng.cover("scanned")
        ob = eng.oblige(f"{prop}/mutator-closure/{label}", len(outside) == 0 and len(writes) > 0,
                        detail={"writes": len(writes), "outside": outside[:10]})
        if ob.status == "refuted":
            ob.witness = {"signature": "write-outside-contract", "outside": [list(x) for x in outside[:10]]}
    return Harness(f"mutator-closure.{label}", h, units=[])

"""C19 - Jupyter kernel: lossless framing, authenticated requests, correlated replies.

  ZmqSocket.read_bytes         loop invariant over an arbitrary fragmentation of the stream: returns exactly the next n bytes
                               (sequence theory; z3, cvc5 for what z3 leaves open)
  send / send_multipart -> recv  on the read_bytes contract: any list of 1..3 frames of ARBITRARY lengths and contents written by
                               the send routines is read back identically (byte strings are ropes of symbolic chunks; lengths are
                               unbounded integers; both the short (<= 255) and the long (8-byte length) encodings)
  Kernel.deserialize_wire_msg  returns only if the signature frame equals msg_sign(the four message frames); identities are the
                               frames before the delimiter
  Kernel.send                  identities + [DELIM, msg_sign(frames), header, parent, metadata, content], once per stream
  Kernel.shell_handler         per request type: busy first, idle last (both on iopub with the request header as parent), exactly
                               one reply on the shell socket with the requester's identities and the request header as parent;
                               an unauthenticated request: no send, no evaluation
  bounded                      real sockets over in-memory streams with exhaustive / random fragmentation; bit-flipped signatures;
                               request sequences against a real Kernel object
"""
from __future__ import annotations

import z3

from pyvc.framework import Harness
from pyvc.core import OutOfReach
from pyvc.interp import Raised, Coro, exc, SymPySet, PathEnd, EXC, _Continue, _Break, _Return
from pyvc.loader import Module, number_loops
from pyvc.stmts import Interpreter, PyModule
from pyvc.values import Rec, SV
from .common import A_LOG, A_COOP, PKG, logger_stub, run_catching, World

PROPERTY = "C19"
J_PY = f"{PKG}/jupyter_kernel.py"

ASSUMPTIONS = [
    A_LOG, A_COOP,
    "StreamReader.read(n) returns between 1 and n of the next bytes of the stream, or b'' at end of stream; StreamWriter.write + "
    "drain append the bytes to the peer's stream in order (asyncio / TCP; assumed)",
    "struct.pack('>Q', n) / unpack are inverse for 0 <= n < 2**64 and produce 8 bytes ('>L': 4 bytes, n < 2**32); frame lengths "
    "are below 2**64",
    "hmac / hashlib: msg_sign is a function of the key and the frames (HMAC-SHA256); unforgeability is the cryptographic "
    "assumption, not proved",
    "json.dumps / json.loads are inverse on the dictionaries used (assumed)",
    "lists of frames are non-empty (a ZMTP message has at least one frame; send_multipart([]) writes nothing)",
]
NOT_DECIDED = ["parsing of ZMTP command frames (READY) in recv: byte slicing with symbolic offsets is outside the rope encoding; bounded native",
               "stdout / log capture ordering through the housekeeping queue (housekeep_run): bounded native only",
               "handshake greeting bytes against the ZMTP 3.0 specification text"]
SHAPE_BOUNDS = {"frames per message in the round-trip proof": "<= 3 (lengths and contents arbitrary)"}
LEVEL_TEXT = ("Proof: read_bytes returns exactly the next n bytes under every fragmentation (loop invariant); on that contract every "
              "message of <= 3 frames of arbitrary length round-trips through send/send_multipart and recv in both length encodings; "
              "deserialize_wire_msg accepts exactly correctly signed messages; send and shell_handler build one signed, addressed, "
              "parent-correlated reply bracketed by busy/idle.  Real byte-level I/O: bounded native stand-in.")

SeqI = z3.SeqSort(z3.IntSort())


# ----------------------------------------------------------------------------------------------------------
# read_bytes: loop invariant over arbitrary fragmentation
# ----------------------------------------------------------------------------------------------------------
def load_kernel_module(it, extra=None):
    stubs = {"_LOGGER": logger_stub(), "asyncio": PyModule("asyncio", {"CancelledError": EXC["CancelledError"], "QueueFull": EXC.get("Exception"), "Queue": lambda i, n=0: Rec(name="Queue")}),
             "Function": Rec(name="Function"), "State": Rec(name="State"), "EvalExceptionFormatter": None,
             "hashlib": PyModule("hashlib", {"sha256": "sha256"}), "hmac": PyModule("hmac", {}), "json": PyModule("json", {}),
             "uuid": PyModule("uuid", {}), "re": PyModule("re", {"compile": lambda i, *a: None, "DOTALL": 16}),
             "logging": PyModule("logging", {"DEBUG": 10, "handlers": PyModule("handlers", {"BufferingHandler": Rec(name="BufferingHandler")}), "Formatter": lambda i, f: None}),
             "datetime": PyModule("datetime", {}), "traceback": PyModule("traceback", {}), "LOGGER_PATH": "custom_components.pyscript"}
    stubs.update(extra or {})
    return Module(it, J_PY, stubs=stubs)


def h_read_bytes(eng):
    U = "C19/ZmqSocket.read_bytes#while0"
    it = Interpreter(eng)
    S = z3.Const("stream", SeqI)
    p0 = z3.Int("position_at_call")
    n = z3.Int("num_bytes")
    a = z3.Int("bytes_so_far")
    eng.assume(z3.And(p0 >= 0, n >= 0, a >= 0, a <= n, p0 + a <= z3.Length(S)))
    eof = bool(eng.choose(2, "end-of-stream"))
    j = z3.Int("fragment_length")
    reads = []

    def read(it_, k):
        def th():
            reads.append(k)
            kt = k.t if isinstance(k, SV) else z3.IntVal(k)
            if eof:
                eng.assume(p0 + a == z3.Length(S))
                return SV(z3.Empty(SeqI))
            eng.assume(z3.And(j >= 1, j <= kt, p0 + a + j <= z3.Length(S)))
            return SV(z3.Extract(S, p0 + a, j))
        return Coro(th, "reader.read")
    mod = load_kernel_module(it, {"unpack": None, "pack": None})
    cls = mod.env.vars["ZmqSocket"]
    sock = Rec(cls=cls, fields={"reader": Rec(fields={"read": read}, name="reader"), "writer": None, "type": "ROUTER"}, name="sock")
    fn = mod.func("ZmqSocket.read_bytes")
    number_loops(fn.node)
    result = {}

    def at_loop(interp, node, env):
        # arbitrary iteration: the invariant  data == stream[p0 : p0 + a]  with a <= n
        e = env
        while e is not None and not getattr(e, "is_frame", False):
            e = e.parent
        (e or env).vars["data"] = SV(z3.Extract(S, p0, a))
        # loop condition
        cond = interp.ev(node.test, env)
        if not interp.branch_truth(cond, "loop-condition"):
            result["end"] = "exit"
            result["data"] = (e or env).vars["data"]
            raise PathEnd()
        try:
            interp.exec_block(node.body, env)
            result["end"] = "iterated"
        except _Break:
            result["end"] = "break"
        result["data"] = (e or env).vars["data"]
        raise PathEnd()
    it.loop_specs[("ZmqSocket.read_bytes", "while0")] = at_loop
    try:
        it.await_(it.call(it.getattr_(sock, "read_bytes"), [SV(n)], {}))
    except PathEnd:
        pass
    except Raised as r:
        result["end"] = "raised:" + r.exc.cls.name
    eng.cover(f"end:{result.get('end')}")
    if result.get("end") == "exit":
        eng.oblige(f"{U}/exit.returns-exactly-the-next-n-bytes", z3.And(a == n, result["data"].t == z3.Extract(S, p0, n)))
        return
    if eof:
        eng.oblige(f"{U}/step.end-of-stream-before-n-bytes-raises-EOFError", result.get("end") == "raised:EOFError")
        return
    eng.oblige(f"{U}/step.no-exception", result.get("end") == "iterated")
    if result.get("end") != "iterated":
        return
    eng.oblige(f"{U}/step.asks-for-at-most-the-missing-bytes", len(reads) == 1 and isinstance(reads[0], SV) and z3.And(reads[0].t == n - a, reads[0].t >= 1))
    ob = eng.oblige(f"{U}/step.invariant-preserved-under-any-fragment", z3.And(result["data"].t == z3.Extract(S, p0, a + j), a + j <= n))
    if ob.status == "refuted":
        ob.witness = {"signature": "read_bytes-invariant", "what": "read_bytes"}
    eng.oblige(f"{U}/step.progress", a + j > a)


# ----------------------------------------------------------------------------------------------------------
# ropes: exact byte strings made of symbolic chunks
# ----------------------------------------------------------------------------------------------------------
class Rope(Rec):
    """A byte string as a concatenation of chunks:
        ('lit', bytes) | ('byte', int-term) | ('u64', int-term) | ('u32', int-term) | ('blob', name, length-term)"""

    def __init__(self, chunks=()):
        super().__init__(name="bytes")
        self.chunks = self._norm(list(chunks))
        self._fields["__getitem__"] = lambda it_, idx: self.getitem(it_, idx)
        self._fields["__len__"] = lambda it_: self.sym_len(it_)
        self._fields["decode"] = lambda it_, enc="utf-8": ("decoded", self)

    @staticmethod
    def _norm(chunks):
        out = []
        for c in chunks:
            if c[0] == "lit":
                if len(c[1]) == 0:
                    continue
                if out and out[-1][0] == "lit":
                    out[-1] = ("lit", out[-1][1] + bytes(c[1]))
                    continue
                c = ("lit", bytes(c[1]))
            out.append(c)
        return out

    @staticmethod
    def of(x):
        if isinstance(x, Rope):
            return x
        if isinstance(x, (bytes, bytearray)):
            return Rope([("lit", bytes(x))])
        raise OutOfReach(f"bytes concatenation with {type(x).__name__}")

    def __add__(self, other):
        return Rope(self.chunks + Rope.of(other).chunks)

    def __radd__(self, other):
        return Rope(Rope.of(other).chunks + self.chunks)

    def key(self):
        return tuple((c[0],) + tuple(x.get_id() if z3.is_expr(x) else x for x in c[1:]) for c in self.chunks)

    def same(self, other):
        return isinstance(other, Rope) and self.key() == other.key()

    @staticmethod
    def chunk_len(c):
        if c[0] == "lit":
            return z3.IntVal(len(c[1]))
        return {"byte": z3.IntVal(1), "u64": z3.IntVal(8), "u32": z3.IntVal(4)}.get(c[0]) if c[0] != "blob" else c[2]

    def sym_len(self, interp=None):
        total = z3.IntVal(0)
        conc = 0
        sym = []
        for c in self.chunks:
            ln = self.chunk_len(c)
            if z3.is_int_value(ln):
                conc += ln.as_long()
            else:
                sym.append(ln)
        if not sym:
            return conc
        t = sym[0]
        for x in sym[1:]:
            t = t + x
        return SV(t + conc if conc else t)

    def getitem(self, interp, idx):
        if idx != 0 or not self.chunks:
            raise OutOfReach("rope index other than [0]")
        c = self.chunks[0]
        if c[0] == "lit":
            return c[1][0]
        if c[0] == "byte":
            return SV(c[1]) if z3.is_expr(c[1]) and not z3.is_int_value(c[1]) else (c[1].as_long() if z3.is_expr(c[1]) else c[1])
        raise OutOfReach(f"first byte of a {c[0]} chunk")

    def take(self, eng, n):
        """split off the first n bytes (n: int or SV); only at chunk boundaries for symbolic chunks"""
        rest = list(self.chunks)
        out = []
        if isinstance(n, int):
            need = n
            while need > 0:
                if not rest:
                    raise exc("EOFError")
                c = rest.pop(0)
                ln = self.chunk_len(c)
                if z3.is_int_value(ln):
                    L = ln.as_long()
                    if L <= need:
                        out.append(c)
                        need -= L
                    elif c[0] == "lit":
                        out.append(("lit", c[1][:need]))
                        rest.insert(0, ("lit", c[1][need:]))
                        need = 0
                    else:
                        raise OutOfReach("concrete read splits a fixed-width field")
                else:
                    raise OutOfReach("concrete read runs into a symbolic blob")
            return Rope(out), Rope(rest)
        nt = n.t
        # symbolic n: must be exactly the next chunk (possibly empty)
        if rest:
            c = rest[0]
            ln = self.chunk_len(c)
            if eng.valid(nt == ln):
                return Rope([c]), Rope(rest[1:])
        if eng.valid(nt == 0):
            return Rope([]), Rope(rest)
        raise OutOfReach("symbolic read length does not match the next chunk")


def blob(name):
    ln = z3.Int(f"len_{name}")
    return Rope([("blob", name, ln)]), ln


def bytes_join(it_, sep, parts):
    out = Rope.of(b"")
    for i, p in enumerate(parts):
        if i:
            out = out + Rope.of(sep)
        out = out + Rope.of(p)
    return out


def sock_env(eng):
    it = Interpreter(eng)
    it.method_tables[("bytes", "join")] = bytes_join
    w = World(eng)
    state = {"written": Rope([]), "stream": Rope([])}

    def pack(it_, fmt, n):
        nt = n.t if isinstance(n, SV) else z3.IntVal(n)
        return Rope([("u64" if fmt == ">Q" else "u32", nt)])

    def unpack(it_, fmt, data):
        kind = "u64" if fmt == ">Q" else "u32"
        if isinstance(data, Rope) and len(data.chunks) == 1 and data.chunks[0][0] == kind:
            t = data.chunks[0][1]
            return [SV(t) if not z3.is_int_value(t) else t.as_long()]
        raise OutOfReach("unpack of something that is not a packed integer")

    def bytearray_(it_, items=()):
        chunks = []
        for x in items:
            if isinstance(x, SV):
                if not it_.eng.branch(z3.And(x.t >= 0, x.t <= 255), "byte-range"):
                    raise exc("ValueError", "byte must be in range(0, 256)")
                chunks.append(("byte", x.t))
            else:
                if not 0 <= x <= 255:
                    raise exc("ValueError", "byte must be in range(0, 256)")
                chunks.append(("lit", bytes([x])))
        return Rope(chunks)
    mod = load_kernel_module(it, {"unpack": unpack, "pack": pack, "bytearray": bytearray_})
    cls = mod.env.vars["ZmqSocket"]

    def write_bytes(it_, raw):
        def th():
            state["written"] = state["written"] + Rope.of(raw)
            state["writes"] = state.get("writes", 0) + 1
        return Coro(th, "write_bytes")

    def read_bytes(it_, n):
        # contract proved by h_read_bytes: exactly the next n bytes of the stream, whatever the fragmentation
        def th():
            try:
                got, rest = state["stream"].take(eng, n)
            except OutOfReach as e:
                # the receiver asks for bytes that do not line up with the fields the sender wrote
                state["desync"] = str(e)
                raise PathEnd()
            state["stream"] = rest
            return got
        return Coro(th, "read_bytes")
    sock = Rec(cls=cls, fields={"reader": None, "writer": None, "type": "ROUTER", "write_bytes": write_bytes, "read_bytes": read_bytes}, name="sock")
    return it, w, mod, sock, state


def h_roundtrip_multipart(n_frames):
    def h(eng):
        U = f"C19/send_multipart->recv[frames={n_frames}]"
        if not hasattr(eng, "valid"):
            eng.valid = lambda f: eng_valid(eng, f)
        it, w, mod, sock, state = sock_env(eng)
        parts, lens = [], []
        for i in range(n_frames):
            b, ln = blob(f"frame{i}")
            eng.assume(z3.And(ln >= 0, ln < 2 ** 64))
            parts.append(b)
            lens.append(ln)
        k1, _ = run_catching(it, lambda: it.await_(it.call(it.getattr_(sock, "send_multipart"), [list(parts)], {})))
        eng.cover(f"sent:{k1}")
        eng.oblige(f"{U}/send.no-exception", k1 == "ok")
        if k1 != "ok":
            return
        # write_bytes awaits the transport's drain(): it is the only place where send_multipart can be suspended.  Several
        # coroutines send on one socket (iopub: stdout relay, status broadcasts, results), so the frames of one message must
        # reach the transport in ONE write - otherwise another sender's frames can land between them
        ob = eng.oblige(f"{U}/send.whole-message-in-one-write", state.get("writes", 0) == 1)
        if ob.status == "refuted":
            ob.witness = {"signature": "message-split-over-several-writes", "frames": n_frames, "writes": state.get("writes", 0)}
        # the peer's stream is what was written, plus whatever follows (next message)
        tail, _ = blob("following_bytes")
        state["stream"] = state["written"] + tail
        try:
            k2, got = run_catching(it, lambda: it.await_(it.call(it.getattr_(sock, "recv_multipart"), [], {})))
        except PathEnd:
            k2, got = "desync", None
        ob = eng.oblige(f"{U}/recv.reads-along-the-fields-the-sender-wrote", "desync" not in state)
        if ob.status == "refuted":
            ob.witness = {"signature": "roundtrip", "what": "desync", "detail": state.get("desync")}
        if k2 == "desync":
            return
        eng.oblige(f"{U}/recv.no-exception", k2 == "ok")
        if k2 != "ok":
            return
        ob = eng.oblige(f"{U}/post.frames-read-back-identically", isinstance(got, list) and len(got) == n_frames and all(isinstance(g, Rope) and g.same(p) for g, p in zip(got, parts)))
        if ob.status == "refuted":
            ob.witness = {"signature": "roundtrip", "what": "roundtrip", "frames": n_frames}
        eng.oblige(f"{U}/post.exactly-the-message-is-consumed", state["stream"].same(tail))
    return h


def eng_valid(eng, f):
    """f holds on every model of the current path condition"""
    ob = eng.oblige("__aux__/valid", f, kind="aux") if False else None
    s = eng.solver
    s.push()
    for g in eng._instantiate([]):
        s.add(g)
    s.add(z3.Not(f))
    r = eng._check()
    s.pop()
    return r == z3.unsat


def h_roundtrip_single(eng):
    U = "C19/send->recv"
    eng.valid = lambda f: eng_valid(eng, f)
    it, w, mod, sock, state = sock_env(eng)
    msg, ln = blob("message")
    eng.assume(z3.And(ln >= 0, ln < 2 ** 64))
    k1, _ = run_catching(it, lambda: it.await_(it.call(it.getattr_(sock, "send"), [msg], {})))
    eng.cover(f"sent:{k1}")
    eng.oblige(f"{U}/send.no-exception", k1 == "ok")
    if k1 != "ok":
        return
    tail, _ = blob("following_bytes")
    state["stream"] = state["written"] + tail
    mod.env.vars["bytes_join"] = None
    try:
        k2, got = run_catching(it, lambda: it.await_(it.call(it.getattr_(sock, "recv"), [], {})))
    except PathEnd:
        k2, got = "desync", None
    ob = eng.oblige(f"{U}/recv.reads-along-the-fields-the-sender-wrote", "desync" not in state)
    if ob.status == "refuted":
        ob.witness = {"signature": "roundtrip-single", "what": "desync", "detail": state.get("desync")}
    if k2 == "desync":
        return
    eng.oblige(f"{U}/recv.no-exception", k2 == "ok")
    if k2 != "ok":
        return
    ob = eng.oblige(f"{U}/post.message-read-back-identically", isinstance(got, Rope) and got.same(msg))
    if ob.status == "refuted":
        ob.witness = {"signature": "roundtrip-single", "what": "roundtrip"}
    eng.oblige(f"{U}/post.exactly-the-message-is-consumed", state["stream"].same(tail))


# ----------------------------------------------------------------------------------------------------------
# Kernel: signature check, send, shell_handler
# ----------------------------------------------------------------------------------------------------------
SigS = z3.DeclareSort("Signature")


def frame_tok(name):
    r = Rec(name=name)
    r._fields["decode"] = lambda it_, enc="utf-8": ("text-of", r)
    return r


def kernel_env(eng):
    it = Interpreter(eng)
    it.obj_may_be_none = True
    w = World(eng)
    loads = lambda it_, txt: {"__decoded__": txt[1]} if isinstance(txt, tuple) else (_ for _ in ()).throw(AssertionError("json.loads of a non-frame"))
    dumped = {}

    def dumps(it_, obj, **options):
        tok = ("json-of", id(obj) if not isinstance(obj, dict) or obj else "empty-dict")
        dumped[tok] = obj
        # the assumed contract (json.dumps total on the message dictionaries, its text always encodable, inverse of loads) is
        # that of the DEFAULT encoder; layout options keep it, anything else (ensure_ascii=False lets lone surrogates through
        # to .encode(), allow_nan=False / default= / cls= / skipkeys= change totality or the value) leaves it
        dumped.setdefault("options-outside-the-assumed-contract", []).extend(sorted(k for k in options if k not in ("separators", "indent", "sort_keys")))
        return tok
    mod = load_kernel_module(it, {"json": PyModule("json", {"loads": loads, "dumps": dumps}), "unpack": None, "pack": None,
                                  "str_to_bytes": lambda it_, s_: ("bytes-of", s_),
                                  "datetime": PyModule("datetime", {"datetime": Rec(fields={"now": lambda it_: Rec(fields={"isoformat": lambda it2: "<now>"}, name="dt")}, name="datetime")})})
    return it, w, mod, dumped


def h_deserialize(n_ids):
    def h(eng):
        U = f"C19/Kernel.deserialize_wire_msg[identities={n_ids}]"
        it, w, mod, dumped = kernel_env(eng)
        cls = mod.env.vars["Kernel"]
        DELIM = mod.env.vars["DELIM"]
        ids = [frame_tok(f"identity{i}") for i in range(n_ids)]
        frames = [frame_tok(f"frame{i}") for i in range(4)]
        extra = [frame_tok("buffer0")] if eng.choose(2, "extra-buffer-frame") else []
        given = SV(z3.Const("signature_frame", SigS))
        computed = SV(z3.Const("hmac_of_the_frames", SigS))
        signed = []
        k = Rec(cls=cls, fields={"msg_sign": lambda it_, lst: (signed.append(list(lst)), computed)[1]}, name="kernel")
        wire = ids + [DELIM, given] + frames + extra
        kk, v = run_catching(it, lambda: it.call(it.getattr_(k, "deserialize_wire_msg"), [wire], {}))
        eng.cover(f"exit:{kk}")
        valid = given.t == computed.t
        if kk == "ok":
            ob = eng.oblige(f"{U}/post.accepted-only-if-the-signature-matches", valid)
            if ob.status == "refuted":
                ob.witness = {"signature": "accepts-bad-signature", "what": "signature"}
            eng.oblige(f"{U}/post.identities-are-the-frames-before-the-delimiter", isinstance(v, (list, tuple)) and list(v[0]) == ids)
            msg = v[1]
            eng.oblige(f"{U}/post.message-parts-decode-the-four-frames-in-order", all(
                isinstance(msg.get(kname), dict) and msg[kname].get("__decoded__") is frames[i] for i, kname in enumerate(("header", "parent_header", "metadata", "content"))))
        else:
            eng.oblige(f"{U}/post.rejected-only-if-the-signature-differs", z3.And(z3.Not(valid), v.cls.name == "ValueError"))
        eng.oblige(f"{U}/post.signature-computed-over-all-message-frames", len(signed) == 1 and signed[0] == frames + extra)
    return h


def h_kernel_send(eng):
    U = "C19/Kernel.send"
    it, w, mod, dumped = kernel_env(eng)
    cls = mod.env.vars["Kernel"]
    DELIM = mod.env.vars["DELIM"]
    sig = SV(z3.Const("hmac_of_the_frames", SigS))
    signed = []
    header = {"msg_type": "<new header>"}
    k = Rec(cls=cls, fields={"msg_sign": lambda it_, lst: (signed.append(list(lst)), sig)[1], "new_header": lambda it_, t: dict(header, msg_type=t)}, name="kernel")
    sent = []

    def mk_stream(i):
        r = Rec(name=f"stream{i}")
        r._fields["send_multipart"] = lambda it_, parts: Coro(lambda: sent.append((r, list(parts))), "send_multipart")
        return r
    shape = ["none", "one", "set-of-two", "empty-set"][eng.choose(4, "stream")]
    streams = [mk_stream(i) for i in range(2)]
    stream = {"none": None, "one": streams[0], "set-of-two": SymPySet(streams), "empty-set": SymPySet([])}[shape]
    orig_isinstance = it.isinstance_
    set_type = mod.env.vars.get("set")
    ids = [frame_tok("identity0"), frame_tok("identity1")] if eng.choose(2, "identities") else None
    parent = {"msg_id": "req-1"} if eng.choose(2, "parent") else None
    content = {"k": "v"} if eng.choose(2, "content") else None
    meta = {"m": 1} if eng.choose(2, "metadata") else None
    kk, v = run_catching(it, lambda: it.await_(it.call(it.getattr_(k, "send"), [stream, "some_reply"], {"content": content, "parent_header": parent, "metadata": meta, "identities": ids})))
    eng.cover(f"exit:{kk}:{shape}")
    eng.oblige(f"{U}/post.no-exception", kk == "ok")
    if kk != "ok":
        return
    want_n = {"none": 0, "one": 1, "set-of-two": 2, "empty-set": 0}[shape]
    eng.oblige(f"{U}/post.each-stream-gets-exactly-one-message", len(sent) == want_n and len({id(x[0]) for x in sent}) == want_n)
    eng.oblige(f"{U}/post.signature-over-the-four-frames", len(signed) == 1 and len(signed[0]) == 4)
    ob = eng.oblige(f"{U}/post.serialised-within-the-assumed-json-contract", not dumped.get("options-outside-the-assumed-contract"))
    if ob.status == "refuted":
        ob.witness = {"signature": "send-json-options", "what": "send-text", "options": dumped.get("options-outside-the-assumed-contract")}
    if len(signed) != 1:
        return
    f = signed[0]

    def payload(tok):
        return dumped.get(tok[1]) if isinstance(tok, tuple) and tok[0] == "bytes-of" else None
    eng.oblige(f"{U}/post.frames-encode-header-parent-metadata-content", payload(f[0]) == dict(header, msg_type="some_reply") and payload(f[1]) == (parent or {})
               and payload(f[2]) == (meta or {}) and payload(f[3]) == (content or {}))
    for r, parts in sent:
        ob = eng.oblige(f"{U}/post.wire-layout-identities-delimiter-signature-frames", parts == (ids or []) + [DELIM, sig] + f)
        if ob.status == "refuted":
            ob.witness = {"signature": "send-layout", "what": "send"}


REPLY_OF = {"execute_request": "execute_reply", "kernel_info_request": "kernel_info_reply", "complete_request": "complete_reply",
            "is_complete_request": "is_complete_reply", "comm_info_request": "comm_info_reply", "history_request": "history_reply"}


def h_shell_handler(msg_type):
    def h(eng):
        U = f"C19/Kernel.shell_handler[{msg_type}]"
        eng.max_steps = 2_000_000
        it, w, mod, dumped = kernel_env(eng)
        cls = mod.env.vars["Kernel"]
        authentic = bool(eng.choose(2, "signature-valid"))
        header = {"msg_id": "req-7", "msg_type": msg_type, "session": "client"}
        store = [True, False, "absent"][eng.choose(3, "store_history")] if msg_type == "execute_request" else "absent"
        content = {"code": "x + 1", "cursor_pos": 3}
        if store != "absent":
            content["store_history"] = store
        msg = {"header": header, "parent_header": {}, "metadata": {}, "content": content}
        ids = [frame_tok("identity0")]
        sends, evals, parses = [], [], []
        # (a cell's value can be false in a boolean context - 0, '', [], False - and is still a value: only None means "no value")
        outcome = ["value", "none", "raises", "false-value"][eng.choose(4, "cell-outcome")] if msg_type in ("execute_request", "is_complete_request") else "value"

        def deserialize(it_, wire):
            if not authentic:
                raise exc("ValueError", "Signatures do not match")
            return [ids, msg]

        # interference (A-COOP): one shell_listen task runs per connection, so while this handler is suspended another
        # request's handler may run and overwrite the kernel-wide fields it assigns (parent_header, execution_count)
        interference = bool(eng.choose(2, "another-request-interleaves"))
        other_header = {"msg_id": "req-of-another-connection", "msg_type": "execute_request"}
        kref = {}

        def suspended():
            if interference and "k" in kref:
                kref["k"]._fields["parent_header"] = other_header

        def send(it_, stream, mtype, content=None, parent_header=None, metadata=None, identities=None):
            def th():
                sends.append({"stream": stream, "type": mtype, "content": dict(content) if isinstance(content, dict) else content,
                              "parent": parent_header, "ids": identities})
                suspended()
            return Coro(th, "send")

        def parse(it_, code):
            parses.append(code)
            if msg_type == "is_complete_request" and outcome == "raises":
                raise exc("SyntaxError", "unexpected EOF while parsing")

        def ev(it_):
            def th():
                evals.append(1)
                suspended()
                if outcome == "raises":
                    raise exc("ZeroDivisionError", "division by zero")
                return None if outcome == "none" else (0 if outcome == "false-value" else 42)
            return Coro(th, "ast_ctx.eval")
        actx = Rec(fields={"parse": parse, "eval": ev, "completions": lambda it_, root: SymPySet([])}, name="ast_ctx")
        gctx = Rec(fields={"set_auto_start": lambda it_, b: None, "start": lambda it_: None}, name="global_ctx")
        iopub = SymPySet([Rec(name="iopub0")])
        shell = Rec(name="shell_socket")
        hq = Rec(name="housekeep_q")
        hq._fields["put"] = lambda it_, item: Coro(lambda: w.emit("housekeep", item[0]), "put")
        mod.env.vars["asyncio"].attrs["Queue"] = lambda it_, n=0: Rec(fields={"get": lambda it2: Coro(lambda: 0, "get")}, name="handshake_q")
        mod.env.vars["Function"] = Rec(fields={"waiter_sync": lambda it_: Coro(lambda: None, "waiter_sync"),
                                               "service_completions": lambda it_, r: Coro(lambda: SymPySet([]), "sc"),
                                               "func_completions": lambda it_, r: Coro(lambda: SymPySet([]), "fc")}, name="Function")
        mod.env.vars["State"] = Rec(fields={"completions": lambda it_, r: SymPySet([])}, name="State")
        mod.env.vars["EvalExceptionFormatter"] = lambda it_, e: Rec(fields={"format": lambda it2: ["traceback"]}, name="fmt")
        count0 = SV(z3.Int("execution_count"))
        k = Rec(cls=cls, fields={"deserialize_wire_msg": deserialize, "send": send, "ast_ctx": actx, "global_ctx": gctx, "iopub_socket": iopub,
                                 "execution_count": count0, "engine_id": "engine", "housekeep_q": hq, "parent_header": None,
                                 "completion_re": Rec(fields={"match": lambda it_, s_: None}, name="re"),
                                 "colon_end_re": Rec(fields={"match": lambda it_, s_: None}, name="re2")}, name="kernel")
        kref["k"] = k
        kk, v = run_catching(it, lambda: it.await_(it.call(it.getattr_(k, "shell_handler"), [shell, ["<wire>"]], {})))
        eng.cover(f"exit:{kk}")
        if not authentic:
            ob = eng.oblige(f"{U}/post.unauthenticated-request-is-neither-executed-nor-answered",
                            kk == "exc" and v.cls.name == "ValueError" and sends == [] and evals == [] and parses == [])
            if ob.status == "refuted":
                ob.witness = {"signature": "unauthenticated-processed", "what": "auth"}
            return
        eng.oblige(f"{U}/post.no-exception", kk == "ok")
        if kk != "ok":
            return
        to_shell = [s_ for s_ in sends if s_["stream"] is shell]
        to_pub = [s_ for s_ in sends if s_["stream"] is iopub]
        eng.oblige(f"{U}/post.every-message-goes-to-the-shell-socket-or-iopub", len(to_shell) + len(to_pub) == len(sends))
        ob = eng.oblige(f"{U}/post.busy-first-idle-last-on-iopub", len(sends) >= 2 and sends[0]["stream"] is iopub and sends[0]["type"] == "status"
                        and sends[0]["content"] == {"execution_state": "busy"} and sends[-1]["stream"] is iopub and sends[-1]["type"] == "status"
                        and sends[-1]["content"] == {"execution_state": "idle"} and sum(1 for s_ in sends if s_["type"] == "status") == 2)
        if ob.status == "refuted":
            ob.witness = {"signature": "status-bracketing", "what": "status"}
        ob = eng.oblige(f"{U}/post.every-message-carries-the-request-header-as-parent", all(s_["parent"] is header for s_ in sends))
        if ob.status == "refuted":
            ob.witness = {"signature": "wrong-parent", "what": "parent", "interleaved": interference}
        if msg_type in REPLY_OF:
            ob = eng.oblige(f"{U}/post.exactly-one-reply-addressed-to-the-requester", len(to_shell) == 1 and to_shell[0]["type"] == REPLY_OF[msg_type] and to_shell[0]["ids"] is ids)
            if ob.status == "refuted":
                ob.witness = {"signature": "reply-count", "what": "reply"}
        else:
            eng.oblige(f"{U}/post.no-reply-for-comm-messages", len(to_shell) == 0)
        eng.oblige(f"{U}/post.only-replies-carry-identities", all(s_["ids"] is None for s_ in to_pub))
        c1 = k._fields["execution_count"]
        c1t = c1.t if isinstance(c1, SV) else z3.IntVal(c1)
        if msg_type == "execute_request":
            eng.oblige(f"{U}/post.cell-evaluated-exactly-once", evals == [1] and parses == ["x + 1"])
            eng.oblige(f"{U}/post.execution-counter-advances-iff-history-is-stored", c1t == count0.t + (0 if store is False else 1))
            rep = to_shell[0]["content"] if to_shell else {}
            eng.oblige(f"{U}/post.reply-reports-the-counter-of-this-cell", isinstance(rep.get("execution_count"), SV) and rep["execution_count"].t is not None
                       and z3.is_true(z3.simplify(rep["execution_count"].t == count0.t)))
            results = [s_ for s_ in to_pub if s_["type"] == "execute_result"]
            errors = [s_ for s_ in to_pub if s_["type"] == "error"]
            ob = eng.oblige(f"{U}/post.result-published-iff-the-cell-has-a-value", len(results) == (1 if outcome in ("value", "false-value") else 0) and len(errors) == (1 if outcome == "raises" else 0))
            if ob.status == "refuted":
                ob.witness = {"signature": "cell-value-dropped", "what": "value", "outcome": outcome}
            eng.oblige(f"{U}/post.reply-status-reflects-the-outcome", rep.get("status") == ("error" if outcome == "raises" else "ok"))
            if outcome == "raises":
                eng.oblige(f"{U}/post.error-names-the-exception", errors and errors[0]["content"].get("ename") == "ZeroDivisionError")
        else:
            eng.oblige(f"{U}/post.other-requests-evaluate-nothing", evals == [])
            eng.oblige(f"{U}/post.execution-counter-unchanged", z3.is_true(z3.simplify(c1t == count0.t)))
    return h


def replay_framing(wj):
    from replay.native import run_native
    if wj.get("signature") == "message-split-over-several-writes":
        return run_native("c19_two_senders", wj, timeout=120)
    if wj.get("what") == "parent":
        return run_native("c19_interleaved_parent", wj, timeout=120)
    if wj.get("what") == "send-text":
        return run_native("c19_send_text", wj, timeout=120)
    return run_native("c19_framing_bounded", {"quick": True}, timeout=600)


def bounded_framing(seed):
    from replay.native import run_native
    return run_native("c19_framing_bounded", {"seed": seed}, timeout=1200)


def harnesses():
    hs = [Harness("ZmqSocket.read_bytes", h_read_bytes, units=[(J_PY, "ZmqSocket.read_bytes")], replay=replay_framing)]
    for n in (1, 2, 3):
        hs.append(Harness(f"roundtrip.multipart[{n}]", h_roundtrip_multipart(n), units=[(J_PY, "ZmqSocket.send_multipart"), (J_PY, "ZmqSocket.recv")], replay=replay_framing))
    for n in (0, 1, 2):
        hs.append(Harness(f"Kernel.deserialize_wire_msg[{n}]", h_deserialize(n), units=[(J_PY, "Kernel.deserialize_wire_msg")], replay=replay_framing))
    hs.append(Harness("Kernel.send", h_kernel_send, units=[(J_PY, "Kernel.send")], replay=replay_framing))
    for mt in ("execute_request", "kernel_info_request", "complete_request", "is_complete_request", "comm_info_request", "history_request", "comm_msg"):
        hs.append(Harness(f"Kernel.shell_handler[{mt}]", h_shell_handler(mt), units=[(J_PY, "Kernel.shell_handler")], replay=replay_framing))
    hs.append(Harness("bounded.real-bytes", bounded_framing, units=[(J_PY, "ZmqSocket.recv"), (J_PY, "ZmqSocket.send_multipart"), (J_PY, "Kernel.shell_handler"), (J_PY, "Kernel.msg_sign")], kind="bounded"))
    hs.append(Harness("roundtrip.single", h_roundtrip_single, units=[(J_PY, "ZmqSocket.send"), (J_PY, "ZmqSocket.recv")], replay=replay_framing))
    return hs

"""C06 - time triggers fire at exactly the instants their specification denotes.

  parse_time_offset        for EVERY unit string: the scale is the documented one (s / m / h / d / w families), anything else
                           is reported and counts as seconds; value * scale.
  timer_trigger_next       on the contract of parse_date_time (the instant a datetime text denotes for a base day and a day
                           offset): once() daily / weekly / dated / now-relative, period() without end, cron() on the croniter
                           contract, and the minimum over lists:  (i) result > now (or = now = startup), (ii) result is a
                           denoted instant, (iii) the previous denoted instant is <= now, (iv) None only if nothing is left.
  wait-and-fire loops      legacy trigger_watch#while0 (time branch) and TimeTriggerDecorator._cycle: one run per computed
                           instant, never before it, trigger_time = the instant; startup / shutdown entries once.
  text level               bounded native differentials (structured specs -> text -> real functions vs denotation; whole
                           programs on a virtual clock).
"""
from __future__ import annotations

import z3

from pyvc.framework import Harness
from pyvc.interp import Raised, Coro, exc, SymPySet, PathEnd, EXC, _Continue, _Break, _Return
from pyvc.loader import Module, number_loops
from pyvc.stmts import Interpreter, PyModule
from pyvc.values import Rec, SV
from .common import A_LOG, A_COOP, A_REAL, PKG, logger_stub, run_catching, World
from . import C04 as c04
from . import C09 as c09

PROPERTY = "C06"
T_PY = f"{PKG}/trigger.py"
DT_PY = f"{PKG}/decorators/timing.py"
R = z3.RealSort()
DAY = 86400

ASSUMPTIONS = [
    A_LOG, A_COOP, A_REAL,
    "naive local datetimes are real numbers of seconds with day boundaries at multiples of 86400; timedelta(seconds=x) is x "
    "(microsecond rounding of float seconds is ignored)",
    "contract of TrigTime.parse_date_time used by the proof of timer_trigger_next: for a text without a date the result is "
    "midnight(base) + 86400*day_offset + time-of-day(+offset); for a weekday it is the first such day on or after base moved by "
    "ceil(day_offset/7) weeks; a full date ignores base and day_offset; 'now' is the startup time (+offset).  The function "
    "itself (regular expressions, calendar) is exercised by the bounded native differential only",
    "re.search / re.split classify a specification as cron() / once() / period() (assumed; bounded differential on real text)",
    "croniter(expr, now).get_next() returns the matching wall-clock instants after `now` in increasing order (third-party); "
    "dt_util.as_local(...).astimezone(UTC) is the real time of a local wall-clock time, strictly increasing outside the repeated "
    "hour (Home Assistant / zoneinfo; assumed)",
]
NOT_DECIDED = ["once(today ...) / once(tomorrow ...): the statement does not say which day a moving 'today' denotes",
               "sunrise / sunset (astral), locale day names", "crontab field semantics (croniter)",
               "period() with an end and the day_dither loop: bounded native differential only",
               "a wall clock that reads the same microsecond on two consecutive loop iterations (the '= startup' case would repeat)"]
SHAPE_BOUNDS = {"specifications per @time_trigger in the proof of the minimum": "<= 2 (the fold is per element)",
                "croniter.get_next calls until the wait is positive": "<= 3"}
LEVEL_TEXT = ("Proof on the parsed structure (all times, all offsets, all intervals): timer_trigger_next returns the earliest denoted "
              "instant strictly after now (or now itself at startup) for once()/period()/cron() and the minimum over lists; both "
              "wait loops fire once per computed instant, never early.  Text scanning and calendar arithmetic: bounded native "
              "differential (stated bounds), never counted as proved.")


# ----------------------------------------------------------------------------------------------------------
# parse_time_offset
# ----------------------------------------------------------------------------------------------------------
UNITS = {60: ["m", "min", "mins", "minute", "minutes"], 3600: ["h", "hr", "hour", "hours"], 86400: ["d", "day", "days"],
         604800: ["w", "week", "weeks"], 1: ["", "s", "sec", "second", "seconds"]}


def h_parse_time_offset(eng):
    U = "C06/parse_time_offset"
    it = Interpreter(eng)
    w = World(eng)
    mod, Fn = c09.trig_module(eng, it, w)
    unit = SV(z3.String("unit"))
    num_txt = Rec(name="number-text")
    value = SV(z3.Const("number_value", R))
    num_txt._fields["replace"] = lambda it_, a, b: num_txt
    shape = ["number+unit", "no-number"][eng.choose(2, "split-shape")]
    errors = []
    mod.env.vars["_LOGGER"] = Rec(fields={"error": lambda it_, *a: errors.append(a), "debug": lambda it_, *a: None, "warning": lambda it_, *a: None}, name="_LOGGER")

    def re_split(it_, pattern, s):
        return ["", num_txt, unit, ""] if shape == "number+unit" else [s]
    mod.env.vars["re"] = PyModule("re", {"split": re_split})
    mod.env.vars["float"] = lambda it_, x: value if x is num_txt else (_ for _ in ()).throw(AssertionError("float of something else"))
    k, v = run_catching(it, lambda: it.call(mod.env.vars["parse_time_offset"], ["<text>"], {}))
    eng.cover(f"exit:{k}:{shape}")
    eng.oblige(f"{U}/post.no-exception", k == "ok")
    if k != "ok":
        return
    if shape == "no-number":
        eng.oblige(f"{U}/post.unparsable-offset-is-reported-and-zero", len(errors) == 1 and v == 0)
        return
    vt = v.t if isinstance(v, SV) else z3.RealVal(v)
    want = value.t
    known = z3.BoolVal(False)
    expr = None
    for scale, names in UNITS.items():
        cond = z3.Or(*[unit.t == z3.StringVal(n) for n in names])
        known = z3.Or(known, cond)
        expr = z3.If(cond, value.t * scale, expr if expr is not None else value.t)
    ob = eng.oblige(f"{U}/post.value-times-the-documented-scale-for-every-unit-string", vt == expr)
    if ob.status == "refuted":
        m = ob._z3model
        ob.witness = {"signature": "unit-scale", "unit": str(m.eval(unit.t, model_completion=True)) if m is not None else None}
    eng.oblige(f"{U}/post.unknown-unit-is-reported", z3.Not(known) if len(errors) == 1 else (known if len(errors) == 0 else False))


# ----------------------------------------------------------------------------------------------------------
# timer_trigger_next on the parse_date_time contract
# ----------------------------------------------------------------------------------------------------------
def as_t(x):
    if isinstance(x, SV):
        return x.t
    return z3.RealVal(x) if isinstance(x, float) else z3.IntVal(x) if isinstance(x, int) else x


class TimeModel:
    """reals as naive datetimes: day index, midnight, the parse_date_time contract"""

    def __init__(self, eng):
        self.eng = eng
        self.idx_cache = {}
        self.n = 0

    def fresh_int(self, nm):
        self.n += 1
        return z3.Int(f"{nm}_{self.n}")

    def day_index(self, t):
        key = t.get_id()
        if key not in self.idx_cache:
            q = self.fresh_int("dayidx")
            self.eng.assume(z3.And(DAY * q <= t, t < DAY * (q + 1)))
            self.idx_cache[key] = q
        return self.idx_cache[key]

    def floor_of(self, t, den=None):
        key = ("floor", t.get_id(), den.get_id() if den is not None else None)
        if key in self.idx_cache:
            return self.idx_cache[key]
        q = self.fresh_int("floor")
        if den is None:
            self.eng.assume(z3.And(q <= t, t < q + 1))
        else:
            self.eng.assume(z3.And(q * den <= t, t < (q + 1) * den))
        self.idx_cache[key] = q
        return q

    def ceil_div7(self, k):
        key = ("ceil7", k.get_id())
        if key in self.idx_cache:
            return self.idx_cache[key]
        c = self.fresh_int("ceil7")
        self.eng.assume(z3.And(7 * c >= k, 7 * (c - 1) < k))
        self.idx_cache[key] = c
        return c

    def dow_offset(self, idx, dow):
        key = ("dow", idx.get_id(), dow.get_id())
        if key in self.idx_cache:
            return self.idx_cache[key]
        d0 = self.fresh_int("dow_offset")
        self.eng.assume(z3.And(d0 >= 0, d0 < 7, (idx + d0 - dow) % 7 == 0))
        self.idx_cache[key] = d0
        return d0


def mk_dt_text(eng, tag, forms=("daily", "weekly", "dated", "now")):
    """an abstract datetime text with its denotation parameters"""
    kind = forms[eng.choose(len(forms), f"{tag}.date-form")]
    r = Rec(name=f"text<{tag}:{kind}>")
    r._fields.update({"_kind": kind, "_tag": tag, "_tod": z3.Const(f"{tag}_time_of_day_plus_offset", R), "_C": z3.Const(f"{tag}_dated_instant", R),
                      "_dow": z3.Int(f"{tag}_weekday"), "_off": z3.Const(f"{tag}_offset", R)})
    eng.assume(z3.And(r._fields["_dow"] >= 0, r._fields["_dow"] < 7))
    r._fields["strip"] = lambda it_: r
    return r


def install_time_model(eng, it, mod, tm, startup_sv, calls):
    it.method_tables[("Real", ".days")] = lambda interp, obj: SV(tm.floor_of(obj.t, z3.RealVal(DAY)))
    it.method_tables[("Real", "total_seconds")] = lambda interp, obj: obj

    def timedelta(it_, seconds=0, days=0):
        return SV(z3.ToReal(as_t(seconds)) if z3.is_int(as_t(seconds)) else as_t(seconds))
    mod.env.vars["dt"] = PyModule("dt", {"timedelta": timedelta, "datetime": Rec(name="datetime-class")})

    def floor(it_, x):
        t = x.t
        if z3.is_app_of(t, z3.Z3_OP_DIV):
            num, den = t.children()
            return SV(tm.floor_of(num, den))
        return SV(tm.floor_of(t))

    def ceil(it_, x):
        t = x.t
        c = tm.fresh_int("ceil")
        if z3.is_app_of(t, z3.Z3_OP_DIV):
            num, den = t.children()
            eng.assume(z3.And((c - 1) * den < num, num <= c * den))   # den > 0 on every path that gets here
        else:
            eng.assume(z3.And(c - 1 < t, t <= c))
        return SV(c)
    mod.env.vars["math"] = PyModule("math", {"floor": floor, "ceil": ceil})

    def parse_date_time(it_, text, day_offset, base, startup):
        def th():
            f = text._fields
            kind = f["_kind"]
            rec = [f["_tag"], kind, day_offset, base, None]
            calls.append(rec)
            k = as_t(day_offset)
            k = z3.ToInt(k) if z3.is_real(k) else k
            if kind == "dated":
                return [SV(f["_C"]), True]
            if kind == "now":
                return [SV(startup.t + f["_off"]), True]
            idx = tm.day_index(base.t)
            if kind == "daily":
                rec[4] = idx + k
                return [SV(z3.ToReal(DAY * (idx + k)) + f["_tod"]), False]
            # weekly: first such weekday on or after base's day, moved by ceil(day_offset / 7) weeks
            d0 = tm.dow_offset(idx, f["_dow"])
            weeks = tm.ceil_div7(k) if not (z3.is_int_value(k) and k.as_long() == 0) else z3.IntVal(0)
            rec[4] = idx + d0 + 7 * weeks
            return [SV(z3.ToReal(DAY * (idx + d0 + 7 * weeks)) + f["_tod"]), True]
        return Coro(th, "parse_date_time")
    mod.env.vars["TrigTime"].attrs["parse_date_time"] = parse_date_time


def denoted_once(text, r, startup, K):
    """r is an instant the once() text denotes (K: an integer witness)"""
    f = text._fields
    if f["_kind"] == "dated":
        return r == f["_C"]
    if f["_kind"] == "now":
        return r == startup + f["_off"]
    if f["_kind"] == "daily":
        return r == z3.ToReal(DAY * K) + f["_tod"]
    return z3.And(r == z3.ToReal(DAY * K) + f["_tod"], (K - f["_dow"]) % 7 == 0)


def mk_spec(eng, i, kinds, forms=("daily", "weekly", "dated", "now")):
    kind = kinds[eng.choose(len(kinds), f"spec{i}.kind")]
    s = Rec(name=f"spec{i}<{kind}>")
    s._fields["_kind"] = kind
    s._fields["_i"] = i
    if kind == "once":
        s._fields["_text"] = mk_dt_text(eng, f"s{i}", forms)
    elif kind == "period":
        s._fields["_text"] = mk_dt_text(eng, f"s{i}", forms)
        s._fields["_period"] = z3.Const(f"s{i}_interval", R)
    return s


def ttn_env(eng, startup, kinds):
    it = Interpreter(eng)
    it.obj_may_be_none = True
    w = World(eng)
    mod, Fn = c09.trig_module(eng, it, w)
    tm = TimeModel(eng)
    calls = []
    install_time_model(eng, it, mod, tm, startup, calls)
    warnings = []
    mod.env.vars["_LOGGER"] = Rec(fields={"error": lambda it_, *a: warnings.append(("error", a)), "debug": lambda it_, *a: None,
                                          "warning": lambda it_, *a: warnings.append(("warning", a))}, name="_LOGGER")

    def re_search(it_, pattern, s):
        if s._fields["_kind"] in ("cron", "cron-invalid"):
            return Rec(fields={"group": lambda it2, name: s}, name="cron_match")
        return None

    def re_split(it_, pattern, s):
        kd = s._fields["_kind"]
        if pattern.startswith("once") and kd == "once":
            return ["", s._fields["_text"], ""]
        if pattern.startswith("period") and kd == "period":
            ptxt = Rec(fields={"_spec": s}, name="interval-text")
            ptxt._fields["strip"] = lambda it2: ptxt
            return ["", s._fields["_text"], ptxt, None, ""]
        return [s]
    mod.env.vars["re"] = PyModule("re", {"search": re_search, "split": re_split})
    mod.env.vars["parse_time_offset"] = lambda it_, ptxt: SV(ptxt._fields["_spec"]._fields["_period"])
    cron = {}

    def croniter_ctor(it_, ex, now, ret_type=None):
        i = ex._fields["_i"]
        st = cron.setdefault(i, {"vals": [], "now": now})
        st["vals"] = []   # a new iterator starts over (same instants: they are a function of the expression and `now`)

        def get_next(it2):
            n = len(st["vals"])
            v = z3.Const(f"cron{i}_next_{n}", R)
            prev = st["vals"][-1] if st["vals"] else now.t
            eng.assume(v > prev)   # contract: increasing, after `now`
            st["vals"].append(v)
            if n >= 3:
                raise PathEnd()   # bound on get_next calls (SHAPE_BOUNDS)
            return SV(v)
        return Rec(fields={"get_next": get_next}, name=f"croniter{i}")
    cr = Rec(fields={"is_valid": lambda it_, ex: ex._fields["_kind"] == "cron"}, name="croniter")
    cr._fields["__call__"] = croniter_ctor
    mod.env.vars["croniter"] = cr
    utc = z3.Function("real_time_of_local", R, R)

    def as_local(it_, v):
        return Rec(fields={"astimezone": lambda it2, tz: SV(utc(v.t))}, name="aware")
    mod.env.vars["dt_util"] = PyModule("dt_util", {"as_local": as_local, "UTC": "UTC"})
    return it, w, mod, tm, calls, warnings, cron, utc


def h_ttn_single(kind):
    def h(eng):
        U = f"C06/TrigTime.timer_trigger_next[{kind}]"
        eng.max_steps = 2_000_000
        now = SV(z3.Const("now", R))
        startup = SV(z3.Const("startup", R))
        eng.assume(startup.t <= now.t)
        it, w, mod, tm, calls, warnings, cron, utc = ttn_env(eng, startup, [kind])
        spec = mk_spec(eng, 0, [kind])
        as_list = bool(eng.choose(2, "spec-in-a-list"))
        cls = mod.env.vars["TrigTime"]
        k, v = run_catching(it, lambda: it.await_(it.call(it.getattr_(cls, "timer_trigger_next"), [[spec] if as_list else spec, now, startup], {})))
        eng.cover(f"exit:{k}")
        eng.oblige(f"{U}/post.no-exception", k == "ok")
        if k != "ok":
            return
        nt, adj = v[0], v[1]
        none = nt is None

        def W(ob, what):
            if ob.status == "refuted":
                ob.witness = {"signature": f"{kind}:{what}", "kind": kind, "what": what, "date_form": spec._fields.get("_text")._fields["_kind"] if kind in ("once", "period") else None}
            return ob
        if kind in ("unparsable", "cron-invalid"):
            eng.oblige(f"{U}/post.unusable-specification-is-reported-and-yields-nothing", none and len(warnings) == 1)
            return
        if kind == "cron":
            st = cron.get(0, {"vals": []})
            vals = st["vals"]
            eng.oblige(f"{U}/post.cron-yields-an-instant", not none and len(vals) >= 1)
            if none or not vals:
                return
            r = nt.t
            # the first croniter instant whose REAL distance from now is positive; the wait is that real distance
            last = vals[-1]
            eng.oblige(f"{U}/post.result-is-the-croniter-instant-reached", r == last)
            eng.oblige(f"{U}/post.wait-is-the-real-time-distance-and-positive", z3.And(adj.t - now.t == utc(last) - utc(now.t), adj.t - now.t > 0))
            for earlier in vals[:-1]:
                eng.oblige(f"{U}/post.skipped-instants-were-not-in-the-real-future", utc(earlier) - utc(now.t) <= 0)
            eng.oblige(f"{U}/post.strictly-after-now", r > now.t)
            return
        text = spec._fields["_text"]
        f = text._fields
        form = f["_kind"]
        if kind == "once":
            if not none:
                r = nt.t
                W(eng.oblige(f"{U}/post.after-now-or-the-startup-instant", z3.Or(r > now.t, z3.And(r == now.t, now.t == startup.t))), "not-after-now")
                eng.oblige(f"{U}/post.wait-target-is-the-instant", adj is nt or adj.t == r)
                # (ii) denoted: the witness day index is the one of the parse that produced the result
                K = calls[-1][4] if calls and calls[-1][4] is not None else z3.IntVal(0)
                W(eng.oblige(f"{U}/post.result-is-a-denoted-instant", denoted_once(text, r, startup.t, K)), "not-denoted")
                # (iii) the previous denoted instant is not after now
                if form == "daily":
                    W(eng.oblige(f"{U}/post.no-denoted-instant-skipped", z3.Or(r - DAY <= now.t, z3.And(r == now.t, now.t == startup.t))), "skipped")
                elif form == "weekly":
                    W(eng.oblige(f"{U}/post.no-denoted-instant-skipped", r - 7 * DAY <= now.t), "skipped")
            else:
                # (iv) None only if no denoted instant lies after now
                if form in ("daily", "weekly"):
                    W(eng.oblige(f"{U}/post.recurring-specification-always-has-a-next-instant", False), "none-for-recurring")
                elif form == "dated":
                    W(eng.oblige(f"{U}/post.none-only-when-the-instant-has-passed", z3.And(f["_C"] <= now.t, z3.Not(z3.And(f["_C"] == now.t, now.t == startup.t)))), "none-too-early")
                else:
                    C = startup.t + f["_off"]
                    W(eng.oblige(f"{U}/post.none-only-when-the-instant-has-passed", z3.And(C <= now.t, z3.Not(z3.And(C == now.t, now.t == startup.t)))), "none-too-early")
            return
        # period(start, interval) without end
        p = spec._fields["_period"]
        if none:
            # interval <= 0 is rejected; otherwise a period without end always has a next instant
            W(eng.oblige(f"{U}/post.none-only-for-a-non-positive-interval", p <= 0), "none-for-period")
            if len(warnings):
                eng.cover("invalid-interval-reported")
            return
        r = nt.t
        W(eng.oblige(f"{U}/post.interval-is-positive", p > 0), "non-positive-interval")
        W(eng.oblige(f"{U}/post.after-now-or-the-startup-instant", z3.Or(r > now.t, z3.And(r == now.t, now.t == startup.t))), "not-after-now")
        eng.oblige(f"{U}/post.wait-target-is-the-instant", adj is nt or adj.t == r)
        # start as parsed for today (day_offset 0): dated / now: fixed; daily / weekly: re-anchored to today (the property's
        # quantifier restricts time-only starts to self-consistent ones, so instants are start + k * interval)
        starts = [c for c in calls if c[0] == "s0"]
        eng.oblige(f"{U}/post.start-parsed-once-for-today", len(starts) == 1 and z3.is_int_value(as_t(starts[0][2])) and as_t(starts[0][2]).as_long() == 0 and starts[0][3] is now)
        if form == "dated":
            S0 = f["_C"]
        elif form == "now":
            S0 = startup.t + f["_off"]
        else:
            S0 = None
        if S0 is not None:
            kk = z3.Int("k_witness")
            eng.assume(z3.Implies(r != S0, z3.And(kk * p <= now.t - S0, now.t - S0 < (kk + 1) * p)))
            W(eng.oblige(f"{U}/post.result-is-start-plus-a-whole-number-of-intervals", z3.Or(r == S0, r == S0 + p * (1 + kk))), "not-denoted")
            W(eng.oblige(f"{U}/post.no-denoted-instant-skipped", z3.Or(z3.And(r == S0, z3.Or(S0 > now.t, now.t == startup.t)), r - p <= now.t)), "skipped")
            W(eng.oblige(f"{U}/post.never-before-the-start", r >= S0), "before-start")
    return h


def h_ttn_pair(eng):
    """the minimum over a list: timer_trigger_next([a, b]) = the earlier of timer_trigger_next(a) and timer_trigger_next(b)"""
    U = "C06/TrigTime.timer_trigger_next[list]"
    eng.max_steps = 4_000_000
    now = SV(z3.Const("now", R))
    startup = SV(z3.Const("startup", R))
    eng.assume(startup.t <= now.t)
    # the fold `if next_time is None or this_t < next_time` is the same statement in every branch; period() members make the
    # comparison nonlinear (interval * count) and are left to the single-specification proof + the bounded differential
    kinds = ["once", "cron", "unparsable"]
    it, w, mod, tm, calls, warnings, cron, utc = ttn_env(eng, startup, kinds)
    # once() members in the dated / now-relative forms: their instant is an arbitrary real, which is all the fold sees (the
    # day-offset retry of the recurring forms never reads next_time; it is proved in the single-specification harness)
    a, b = mk_spec(eng, 0, kinds, ("dated", "now")), mk_spec(eng, 1, kinds, ("dated", "now"))
    for sp in (a, b):
        if sp._fields["_kind"] == "period":
            eng.assume(sp._fields["_period"] > 0)
    cls = mod.env.vars["TrigTime"]
    fn = it.getattr_(cls, "timer_trigger_next")

    def run(spec):
        return run_catching(it, lambda: it.await_(it.call(fn, [spec, now, startup], {})))
    k2, v2 = run([a, b])
    ka, va = run(a)
    kb, vb = run(b)
    eng.cover(f"exit:{k2}{ka}{kb}")
    eng.oblige(f"{U}/post.no-exception", (k2, ka, kb) == ("ok", "ok", "ok"))
    if (k2, ka, kb) != ("ok", "ok", "ok"):
        return
    INF = z3.RealVal(10 ** 12)

    def val(v):
        return INF if v[0] is None else v[0].t

    def adjv(v):
        return INF if v[1] is None else v[1].t
    for v in (va, vb):
        if v[0] is not None:
            eng.assume(v[0].t < INF)
    ra, rb, r2 = val(va), val(vb), val(v2)
    ob = eng.oblige(f"{U}/post.list-result-is-the-earliest-of-the-members", r2 == z3.If(ra <= rb, ra, rb))
    if ob.status == "refuted":
        ob.witness = {"signature": "list-minimum", "what": "list-minimum", "kinds": [a._fields["_kind"], b._fields["_kind"]]}
    eng.oblige(f"{U}/post.list-result-is-none-iff-all-members-are", (v2[0] is None) == (va[0] is None and vb[0] is None))
    eng.oblige(f"{U}/post.wait-target-belongs-to-the-chosen-member", z3.Or(z3.And(r2 == ra, adjv(v2) == adjv(va)), z3.And(r2 == rb, adjv(v2) == adjv(vb))))


# ----------------------------------------------------------------------------------------------------------
# wait-and-fire loops
# ----------------------------------------------------------------------------------------------------------
def h_legacy_time_step(kind):
    """kind: 'timer' (the wait times out) | 'message' (a state message arrives first) | 'nothing-left'"""
    def h(eng):
        U = f"C06/TrigInfo.trigger_watch#while0[time;{kind}]"
        eng.max_steps = 3_000_000
        from . import C07 as c07
        ident, msg, fa, nv = c07.c04_message(eng)
        time_next = SV(z3.Const("time_next", R))
        adj = SV(z3.Const("time_next_adj", R))
        have_other = bool(eng.choose(2, "has-state-trigger")) if kind == "nothing-left" else True
        clock = c04.VClock(eng)
        t_top = clock.cur
        ttn_calls = []

        def patch(mod, w):
            def ttn(it_, spec, now, startup):
                def th():
                    ttn_calls.append((spec, now, startup))
                    if kind == "nothing-left":
                        return [None, None]
                    # contract of timer_trigger_next: the instant is after `now`, and so is the end of the wait
                    eng.assume(z3.And(time_next.t > now.t, adj.t > now.t))
                    return [time_next, adj]
                return Coro(th, "timer_trigger_next")
            mod.env.vars["TrigTime"].attrs["timer_trigger_next"] = ttn
        orig = c04.trig_env

        def trig_env(eng_, it_, w=None):
            mod, Fn, w = orig(eng_, it_, w)
            it_.method_tables[("Real", "total_seconds")] = lambda interp, obj: obj
            patch(mod, w)
            return mod, Fn, w
        c04.trig_env = trig_env
        spec = ["cron(* * * * *)"]
        cfg = {"ident": ident, "ident_any": [], "has_expr": True, "expr_result": None,
               "fields": {"time_trigger": spec, "time_trigger_kwargs": {"kwargs": {"extra": 1}} if eng.choose(2, "decorator-kwargs") else {},
                          "have_trigger": have_other}}
        try:
            it, w, ti, res, q_calls, (expr, _) = c04.legacy_step(eng, cfg, msg, loop_state={"state_trig_waiting": False, "startup_time": SV(z3.Const("startup", R)),
                                                                             # whatever an earlier iteration left behind (a hold's expiry, an instant already used)
                                                                             "time_next": SV(z3.Const("stale_time_next", R), none=z3.Bool("stale_time_next_is_none")),
                                                                             "time_next_adj": SV(z3.Const("stale_time_next_adj", R), none=z3.Bool("stale_time_next_is_none"))},
                                                                 clock=clock, timeout_fires=(kind == "timer"))
        finally:
            c04.trig_env = orig
        eng.cover(f"end:{res.get('end')}")
        eng.oblige(f"{U}/post.no-exception-escapes-the-step", not str(res.get("end")).startswith("raised"))
        calls = w.events("call_action")
        arms = w.events("wait_for")
        eng.oblige(f"{U}/post.next-instant-computed-once-from-the-current-time", len(ttn_calls) == 1 and ttn_calls[0][0] is spec and ttn_calls[0][1].t is not None
                   and z3.is_true(z3.simplify(ttn_calls[0][1].t == t_top)))
        if kind == "nothing-left":
            if have_other:
                eng.oblige(f"{U}/post.without-a-next-instant-waits-for-other-triggers-untimed", len(arms) == 0 and q_calls == ["get"])
            else:
                eng.oblige(f"{U}/post.without-a-next-instant-and-other-triggers-the-task-ends", res.get("end") == "return" and q_calls == [] and len(calls) == 0)
            return
        eng.oblige(f"{U}/post.first-wait-is-the-adjusted-distance", len(arms) >= 1 and isinstance(arms[0][1], SV) and
                   z3.And(arms[0][1].t == z3.If(adj.t - t_top >= 0, adj.t - t_top, 0)))
        if kind == "message":
            time_calls = [c for c in calls if c[1] == "time"]
            eng.oblige(f"{U}/post.a-message-before-the-instant-does-not-fire-the-time-trigger", len(time_calls) == 0)
            return
        # timer: every wait timed out; the function runs once, not before the instant, with trigger_time = the instant
        t = clock.cur
        ob = eng.oblige(f"{U}/post.runs-exactly-once-per-instant", len(calls) == 1 and calls[0][1] == "time")
        if ob.status == "refuted":
            ob.witness = {"signature": "legacy-time-run-count", "what": "run-count"}
        if len(calls) == 1:
            want = {"trigger_type": "time", "trigger_time": time_next}
            want.update(cfg["fields"]["time_trigger_kwargs"].get("kwargs", {}))
            eng.oblige(f"{U}/post.trigger_time-is-the-instant", calls[0][2] == want)
            eng.oblige(f"{U}/post.never-runs-before-the-instant", t >= time_next.t)
            eng.oblige(f"{U}/post.early-wake-ups-wait-again", len(arms) <= 2 and all(isinstance(a[1], SV) for a in arms))
    return h


def h_new_time_cycle(kind):
    """TimeTriggerDecorator._cycle: kind 'prologue' | 'step' | 'nothing-left'"""
    def h(eng):
        U = f"C06/TimeTriggerDecorator._cycle[{kind}]"
        it = Interpreter(eng)
        it.obj_may_be_none = True
        w = World(eng)
        amod, bmod, M, hass, live = c09.dec_env(eng, it, w)
        clock = c04.VClock(eng, w)
        it.method_tables[("Real", "total_seconds")] = lambda interp, obj: obj
        time_next = SV(z3.Const("time_next", R))
        adj = SV(z3.Const("time_next_adj", R))
        ttn_calls = []

        def ttn(it_, spec, now, startup):
            def th():
                ttn_calls.append((spec, now, startup))
                if kind == "nothing-left":
                    return [None, None]
                eng.assume(z3.And(time_next.t > now.t, adj.t > now.t))
                return [time_next, adj]
            return Coro(th, "timer_trigger_next")
        sleeps = []

        def sleep(it_, secs):
            def th():
                sleeps.append(secs)
                w.yield_point("asyncio.sleep", cancellable=False)
                # the wall clock after a sleep is later, but not necessarily by the requested amount (clock adjustments):
                # at most two short sleeps, then the deadline is reached
                prev = clock.cur
                clock.phase += 1
                clock.cur = clock._new()
                eng.assume(clock.cur >= prev)
                if len(sleeps) >= 3:
                    eng.assume(clock.cur >= prev + as_t(secs))
            return Coro(th, "asyncio.sleep")
        trigger_stub = PyModule("trigger", {"TrigTime": Rec(fields={"timer_trigger_next": ttn}, name="TrigTime"), "dt_now": lambda it_: clock.read()})
        WU = Rec(name="WaitUntilDecoratorManager-class")
        mod = Module(it, DT_PY, stubs={"_LOGGER": logger_stub(), "TriggerDecorator": amod.env.vars["TriggerDecorator"],
                                       "TriggerHandlerDecorator": amod.env.vars["TriggerHandlerDecorator"],
                                       "AutoKwargsDecorator": bmod.env.vars["AutoKwargsDecorator"],
                                       "DispatchData": amod.env.vars["DispatchData"], "vol": PyModule("vol", {}),
                                       "asyncio": PyModule("asyncio", {"CancelledError": EXC["CancelledError"], "sleep": sleep}),
                                       "DecoratorManagerStatus": Rec(fields=M), "trigger": trigger_stub,
                                       "WaitUntilDecoratorManager": WU,
                                       "time": PyModule("time", {}), "dt": PyModule("dt", {})})
        cls = mod.env.vars["TimeTriggerDecorator"]
        dm = c09.mk_dm_rec(M, hass)
        startup = SV(z3.Const("startup", R))
        dm._fields["startup_time"] = startup
        dispatched = []

        def dm_dispatch(i, data):
            def th():
                dispatched.append((data, clock.cur))
            return Coro(th, "dm.dispatch")
        dm._fields["dispatch"] = dm_dispatch
        on_startup = bool(eng.choose(2, "run_on_startup"))
        spec = ["once(now + 5s)"]
        dec = Rec(cls=cls, fields={"args": spec, "kwargs": {}, "dm": dm, "timespec": spec, "run_on_shutdown": False, "run_on_startup": on_startup,
                                   "name": "time_trigger"}, name="time_dec")
        orig_isinstance = it.isinstance_
        it.isinstance_ = lambda v, c: False if c is WU else orig_isinstance(v, c)
        fn = mod.func("TimeTriggerDecorator._cycle")
        number_loops(fn.node)
        result = {}
        first = bool(eng.choose(2, "first-iteration")) if kind != "prologue" else True

        def at_loop(interp, node, env):
            result["dispatched_before_loop"] = list(dispatched)
            if kind == "prologue":
                result["end"] = "loop-entry"
                result["first_run"] = env.lookup("first_run") if hasattr(env, "lookup") else None
                raise PathEnd()
            dispatched.clear()
            e = env
            while e is not None and not getattr(e, "is_frame", False):
                e = e.parent
            (e or env).vars["first_run"] = first
            try:
                interp.exec_block(node.body, env)
                result["end"] = "fallthrough"
            except _Continue:
                result["end"] = "continue"
            except _Break:
                result["end"] = "break"
            raise PathEnd()
        it.loop_specs[("TimeTriggerDecorator._cycle", "while0")] = at_loop
        try:
            it.await_(it.call(it.getattr_(dec, "_cycle"), [], {}))
        except PathEnd:
            pass
        except Raised as r:
            result["end"] = "raised:" + r.exc.cls.name
        eng.cover(f"end:{result.get('end')}")
        eng.oblige(f"{U}/post.no-exception", not str(result.get("end")).startswith("raised"))
        if kind == "prologue":
            pre = result.get("dispatched_before_loop", [])
            eng.oblige(f"{U}/post.startup-entry-runs-once-at-definition-iff-declared", len(pre) == (1 if on_startup else 0) and all(
                it.getattr_(d[0], "func_args") == {"trigger_type": "time", "trigger_time": "startup"} for d in pre))
            return
        eng.oblige(f"{U}/post.next-instant-computed-once", len(ttn_calls) == 1 and ttn_calls[0][0] is spec and ttn_calls[0][2] is startup)
        if len(ttn_calls) == 1:
            nowv = ttn_calls[0][1]
            eng.oblige(f"{U}/post.first-iteration-starts-from-the-startup-time-later-ones-from-the-clock",
                       (nowv is startup) if first else (isinstance(nowv, SV) and nowv is not startup))
        if kind == "nothing-left":
            eng.oblige(f"{U}/post.without-a-next-instant-the-cycle-ends-without-a-run", result.get("end") == "break" and len(dispatched) == 0 and sleeps == [])
            return
        ob = eng.oblige(f"{U}/post.runs-exactly-once-per-instant", len(dispatched) == 1)
        if ob.status == "refuted":
            ob.witness = {"signature": "new-time-run-count", "what": "run-count"}
        if len(dispatched) == 1:
            d, t_at = dispatched[0]
            eng.oblige(f"{U}/post.trigger_time-is-the-instant", it.getattr_(d, "func_args") == {"trigger_type": "time", "trigger_time": time_next})
            eng.oblige(f"{U}/post.never-runs-more-than-a-microsecond-before-the-end-of-the-wait", t_at >= adj.t - z3.RealVal("0.000001"))
            eng.oblige(f"{U}/post.first-sleep-is-the-adjusted-distance", len(sleeps) >= 1 and isinstance(sleeps[0], SV))
    return h


def replay_offset(wj):
    from replay.native import run_native
    return run_native("c06_offset_unit", wj)


def replay_next(wj):
    from replay.native import run_native
    return run_native("c06_next_witness", wj, timeout=600)


def bounded_next(seed):
    from replay.native import run_native
    return run_native("c06_next_bounded", {"seed": seed, "specs": 500}, timeout=1200)


def bounded_next_thorough(k):
    def run(seed):
        from replay.native import run_native
        return run_native("c06_next_bounded", {"seed": 1000 * (k + 1) + seed, "specs": 3000}, timeout=2400)
    return run


def bounded_runs(seed):
    from replay.native import run_native
    return run_native("c06_runs_bounded", {}, timeout=1200)


def harnesses():
    hs = [Harness("parse_time_offset", h_parse_time_offset, units=[(T_PY, "parse_time_offset")], replay=replay_offset)]
    for kind in ("once", "period", "cron", "cron-invalid", "unparsable"):
        hs.append(Harness(f"timer_trigger_next[{kind}]", h_ttn_single(kind), units=[(T_PY, "TrigTime.timer_trigger_next")], replay=replay_next, max_paths=20000))
    for kind in ("timer", "message", "nothing-left"):
        hs.append(Harness(f"legacy.time-step[{kind}]", h_legacy_time_step(kind), units=[(T_PY, "TrigInfo.trigger_watch")], max_paths=20000))
    for kind in ("prologue", "step", "nothing-left"):
        hs.append(Harness(f"new.time-cycle[{kind}]", h_new_time_cycle(kind), units=[(DT_PY, "TimeTriggerDecorator._cycle")], max_paths=20000))
    hs.append(Harness("timer_trigger_next[list]", h_ttn_pair, units=[(T_PY, "TrigTime.timer_trigger_next")], replay=replay_next, max_paths=60000))
    units_b = [(T_PY, "TrigTime.timer_trigger_next"), (T_PY, "TrigTime.parse_date_time"), (T_PY, "parse_time_offset")]
    hs.append(Harness("bounded.next", bounded_next, units=units_b, kind="bounded"))
    for k in range(8):
        hs.append(Harness(f"bounded.next[thorough {k + 1}/8]", bounded_next_thorough(k), units=units_b, kind="bounded", tier="thorough"))
    hs.append(Harness("bounded.runs", bounded_runs, units=[(T_PY, "TrigInfo.trigger_watch"), (DT_PY, "TimeTriggerDecorator._cycle"), (DT_PY, "TimeTriggerDecorator.stop")], kind="bounded"))
    return hs

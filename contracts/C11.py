"""C11 - each file has an isolated global context; modules are shared singletons.

Units: EvalFunc.call (switch to the defining context for the duration of a call, restore on every exit),
AstEval.ast_classdef (scope stack restored on every exit), GlobalContext.module_import (lookup before load)."""
from __future__ import annotations

import ast

import z3

from pyvc.framework import Harness
from pyvc.effect import OpaqueStmt
from pyvc.interp import Raised, Coro, exc
from pyvc.loader import Module
from pyvc.stmts import PyModule
from pyvc.values import Rec, ClassRec, SV
from .common import A_LOG, PKG, logger_stub, run_catching
from .effect_common import EvalHarness, E_PY, template
from . import C01 as c01

PROPERTY = "C11"
GC_PY = f"{PKG}/global_ctx.py"
ASSUMPTIONS = c01.ASSUMPTIONS[:3] + [
    "interpreter frame invariant for the *children*: an opaque child statement leaves the evaluator's context fields "
    "(global_sym_table, sym_table, sym_table_stack, global_ctx, curr_func, user_locals) as it found them on every exit; "
    "the handlers that push/pop scopes themselves (EvalFunc.call, ast_classdef, comprehensions) are verified",
    "GlobalContextMgr.get / load_file, os.path.isfile and the executor are assumed contracts (ghost effects)",
]
NOT_DECIDED = ["non-interference of two contexts' tables beyond the evaluator's pointers follows from C01/C03 "
               "(every variable access goes through sym_table / global_sym_table); not re-proved here",
               "star-import / relative-level arithmetic of ast_importfrom: see C17 (import forms)"]
SHAPE_BOUNDS = {"function / class body": "<= 2 child statements", "import candidates": "concrete module names (m, pkg.sub) x "
                "rel_import_path in {None, apps/a, apps/a/__init__, modules/p/__init__}"}
LEVEL_TEXT = ("Proof (shape-bounded on body length): for every exit of EvalFunc.call - return at any statement, fall "
              "through, exception - the caller's evaluator fields are restored, and while the body runs the evaluator "
              "points at the defining context's tables; ast_classdef restores the scope stack on every exit; "
              "module_import returns an already loaded context without re-creating it, for every candidate position.")


def mk_body(n):
    return [OpaqueStmt(k, lineno=k + 2) for k in range(n)]


def h_call_frame(cross):
    def h(eng):
        H = EvalHarness(eng)
        it = H.it
        V = H.mod.env.vars
        U = "C11/EvalFunc.call"
        G1 = Rec(name="caller_global_ctx")
        G2 = Rec(name="defining_global_ctx") if cross else G1
        T1, T2 = Rec(name="caller_globals_table"), Rec(name="defining_globals_table")
        G1._fields["get_global_sym_table"] = lambda i: T1
        G2._fields["get_global_sym_table"] = (lambda i: T2) if cross else (lambda i: T1)
        # context NAMES are independent of context identity (a function may be re-bound to another context's name)
        same_name = bool(eng.choose(2, "same-context-name")) if cross else True
        G1._fields["get_name"] = lambda i: "file.caller"
        G2._fields["get_name"] = (lambda i: "file.caller") if same_name else (lambda i: "file.definer")
        caller_locals = Rec(name="caller_locals")
        stack0 = [Rec(name="outer_scope")]
        inside = []
        scopes_seen = []
        fdef = ast.parse("def f():\n    pass\n").body[0]
        fdef.body = mk_body(2)
        prev_func = Rec(name="prev_func")
        ulocals = {"u": 1}
        ctx = Rec(fields={"global_sym_table": T1, "sym_table": caller_locals, "sym_table_stack": list(stack0),
                          "global_ctx": G1, "curr_func": prev_func, "user_locals": ulocals, "code_str": "caller-src",
                          "code_list": ["caller-src"], "name": "file.caller.f"}, name="ast_ctx")
        stack_obj = ctx._fields["sym_table_stack"]

        def aeval(i, node):
            def th():
                f = ctx._fields
                inside.append((f["global_sym_table"], f["global_ctx"], f["curr_func"], f["sym_table"]))
                scopes_seen.append(list(f["sym_table_stack"]))
                kind, v = it.ExS(node)
                if kind == "return":
                    return Rec(cls=V["EvalReturn"], fields={"value": v}, name="EvalReturn")
                return None
            return Coro(th, "aeval")
        ctx._fields["aeval"] = aeval
        it.allowed_completions = ("normal", "return")
        func = Rec(cls=V["EvalFunc"], fields={"func_def": fdef, "name": "f", "global_ctx": G2,
                                              "global_ctx_name": "file.caller" if same_name else "file.definer",
                                              "defaults": [], "kw_defaults": [], "num_posonly_arg": 0, "num_posn_arg": 0,
                                              "local_sym_table": {}, "code_str": "callee-src", "code_list": ["callee-src"]},
                   name="EvalFunc")
        kind, val = run_catching(it, lambda: it.await_(it.call(it.getattr_(func, "call"), [ctx], {})))
        eng.cover(f"exit:{kind}")
        f = ctx._fields
        sig = f"cross={cross},same-name={same_name},exit={kind}"

        def ob(name, cond):
            o = eng.oblige(f"{U}/{name}", cond)
            if o.status == "refuted":
                o.witness = {"signature": sig}
        ob("frame.global_sym_table-restored", f["global_sym_table"] is T1)
        ob("frame.sym_table-restored", f["sym_table"] is caller_locals)
        ob("frame.global_ctx-restored", f["global_ctx"] is G1)
        ob("frame.scope-stack-restored", f["sym_table_stack"] is stack_obj and list(f["sym_table_stack"]) == stack0)
        ob("frame.curr_func-restored", f["curr_func"] is prev_func)
        ob("frame.user_locals-restored", f["user_locals"] is ulocals)
        ob("frame.code-restored", f["code_str"] == "caller-src" and f["code_list"] == ["caller-src"])
        # while the body runs the evaluator points at the DEFINING context
        want_table = T2 if cross else T1
        ob("body.runs-against-the-defining-context", len(inside) >= 1 and all(
            t is want_table and g is G2 and cf is func and st is not caller_locals for t, g, cf, st in inside))
        if cross:
            # isolation: the scopes ENCLOSING the body of a function that belongs to another global context are that
            # context's; neither the caller's local scope nor any scope the caller was nested in is among them (an inner def
            # executed there would bind its free names to the caller's variables)
            o = eng.oblige(f"{U}/body.enclosing-scopes-of-a-foreign-function-hold-nothing-of-the-caller", len(scopes_seen) >= 1 and all(
                all(sc is not caller_locals and all(sc is not x for x in stack0) for sc in seen) for seen in scopes_seen))
            if o.status == "refuted":
                o.witness = {"signature": "callers-scopes-visible-in-a-foreign-function", "what": "cross-context-scopes"}
    return h


def replay_call_frame(wj):
    from replay.native import run_native
    return run_native("c11_cross_context_closure", wj, timeout=120)


def h_classdef_frame(eng):
    H = EvalHarness(eng)
    it = H.it
    U = "C11/AstEval.ast_classdef"
    node = ast.parse("class K:\n    pass\n").body[0]
    node.body = mk_body(2)
    it.allowed_completions = ("normal",)
    f = H.ctx._fields
    st0 = f["sym_table"]
    stack_obj = f["sym_table_stack"]
    stack_obj.append(Rec(name="outer_scope"))
    stack0 = list(stack_obj)
    H.mod.env.vars["type"] = lambda i, *a, **k: Rec(name="class_object")
    it.builtins["type"] = lambda i, *a, **k: Rec(name="class_object") if len(a) == 3 else it.type_of(a[0])
    kind, val = run_catching(it, lambda: it.await_(it.call(it.getattr_(H.ctx, "aeval"), [node], {})))
    eng.cover(f"exit:{kind}")

    def ob(name, cond):
        o = eng.oblige(f"{U}/{name}", cond)
        if o.status == "refuted":
            o.witness = {"signature": f"exit={kind}"}
    ob("frame.sym_table-restored", f["sym_table"] is st0)
    ob("frame.scope-stack-restored", f["sym_table_stack"] is stack_obj and list(stack_obj) == stack0)


def replay_classdef(wj):
    from replay.native import run_native
    return run_native("c11_classdef_scope", wj)


# ----------------------------------------------------------------------------------------------------------
# GlobalContext.module_import
# ----------------------------------------------------------------------------------------------------------
IMPORT_CASES = [
    ("m", 0, None), ("pkg.sub", 0, None), ("m", 0, "apps/a"), ("store", 0, "apps/a/__init__"),
    ("sib", 1, "apps/a/__init__"), ("sib", 1, "modules/p/__init__"), ("x", 2, "apps/a/b/__init__"),
    # names that are also on the interpreter's allow-list of Python modules: a pyscript module of that name is found all the same
    ("random", 0, None), ("json", 0, "apps/a"),
]


def h_module_import(case):
    module_name, level, rel = case

    def h(eng):
        from pyvc.stmts import Interpreter
        import os as real_os
        it = Interpreter(eng)
        U = "C11/GlobalContext.module_import"
        loaded = {}   # ctx name -> context record (ghost: what the manager holds)
        looked = []
        created = []
        load_calls = []

        def mgr_get(i, name):
            looked.append(name)
            if name not in loaded:
                # each candidate may or may not be loaded already
                if eng.choose(2, f"loaded:{name}") == 0:
                    loaded[name] = Rec(fields={"module": Rec(name=f"module<{name}>"), "get_name": (lambda n: lambda i2: n)(name)}, name=f"ctx<{name}>")
                else:
                    loaded[name] = None
            return loaded[name]

        def load_file(i, gctx, path):
            def th():
                load_calls.append((gctx, path, gctx._fields.get("auto")))
                if eng.choose(2, "load-raises") == 0:
                    raise exc("UserException", "syntax error in module")
            return Coro(th, "load_file")
        manager = Rec(fields={"get": mgr_get, "load_file": load_file}, name="manager")
        existing_file = {"which": None}

        def isfile(i, p):
            return eng.choose(2, f"isfile:{p}") == 0

        def executor(i, fn, *a):
            return Coro(lambda: i.call(fn, list(a), {}), "executor_job")
        hass = Rec(fields={"config": Rec(fields={"path": lambda i, f: "/cfg/pyscript"}), "async_add_executor_job": executor}, name="hass")

        def GlobalContext(i, name, global_sym_table=None, manager=None, rel_import_path=None):
            g = Rec(fields={"name": name, "rel_import_path": rel_import_path, "module": None, "auto": None, "stopped": 0}, name=f"new_ctx<{name}>")
            g._fields["set_auto_start"] = lambda i2, a: g._fields.__setitem__("auto", a)
            g._fields["stop"] = lambda i2: g._fields.__setitem__("stopped", g._fields["stopped"] + 1)
            created.append(g)
            return g
        ospath = PyModule("os.path", {"join": lambda i, *a: real_os.path.join(*a), "isfile": isfile, "dirname": lambda i, p: real_os.path.dirname(p)})
        stubs = {"_LOGGER": logger_stub(), "Function": Rec(fields={"hass": hass}), "os": PyModule("os", {"path": ospath}),
                 "ModuleType": lambda i, n: Rec(fields={"__dict__": {}}, name=f"module<{n}>"), "FOLDER": "pyscript",
                 "logging": PyModule("logging", {"getLogger": lambda i, n: logger_stub()}), "LOGGER_PATH": "x",
                 # (not used by the function on the committed tree; provided so that a version that consults the allow-list
                 # stays within reach: module names on the list - 'random' below - are looked up like any other name, a
                 # pyscript module may shadow them)
                 "ALLOWED_IMPORTS": SymPySetOf(_allowed_imports())}
        mod = Module(it, GC_PY, stubs=stubs)
        GC = mod.env.vars["GlobalContext"]
        mod.env.vars["GlobalContext"] = GlobalContext
        imports = []
        me = Rec(cls=GC, fields={"name": "apps.a" if rel and rel.startswith("apps/a") else ("modules.p" if rel else "file.x"),
                                 "rel_import_path": rel, "manager": manager, "auto_start": True,
                                 "imports": Rec(fields={"add": lambda i, n: imports.append(n)})}, name="importer")
        kind, val = run_catching(it, lambda: it.await_(it.call(it.getattr_(me, "module_import"), [module_name, level], {})))
        eng.cover(f"exit:{kind}")
        first_loaded = next((n for n in looked if loaded.get(n) is not None), None)
        sig = f"{module_name}|{level}|{rel}"

        def ob(name, cond):
            o = eng.oblige(f"{U}/{name}", cond)
            if o.status == "refuted":
                o.witness = {"signature": sig}
        if first_loaded is not None:
            ob("post.loaded-module-is-returned-not-recreated",
               kind == "ok" and val is loaded[first_loaded]._fields["module"] and created == [] and load_calls == [])
            ob("post.import-edge-recorded", imports == [first_loaded])
        else:
            if kind == "ok" and val is None:
                ob("post.not-found-creates-nothing", created == [] and imports == [])
            elif kind == "ok":
                ob("post.one-context-created-loaded-once-and-recorded",
                   len(created) == 1 and len(load_calls) == 1 and load_calls[0][0] is created[0]
                   and created[0]._fields["module"] is val and imports == [created[0]._fields["name"]]
                   and created[0]._fields["auto"] is True)
                # the module's triggers and services are created WHILE its file is executed: they start at once only if the new
                # context already has the importer's auto-start setting at that moment (a module imported at run time by a
                # started context would otherwise keep its @service / triggers waiting for a start that never comes)
                ob("post.auto-start-inherited-before-the-file-is-executed", load_calls[0][2] is True)
                ob("post.every-candidate-context-was-looked-up-before-loading",
                   created[0]._fields["name"] in looked)
            else:
                ob("post.failed-load-stops-the-new-context-and-propagates",
                   len(created) == 1 and created[0]._fields["stopped"] == 1 and created[0]._fields["module"] is None and imports == [])
        # the candidates looked up are exactly the documented ones (distinct names, at least modules.<name> or the relative one)
        ob("post.looks-up-all-candidate-names", len(set(looked)) >= 1 and (first_loaded is not None or len(set(looked)) == len(expected_candidates(case))))
    return h


def _allowed_imports():
    import ast as _ast
    from pyvc.loader import parse_file
    tree, _ = parse_file(f"{PKG}/const.py")
    for n in tree.body:
        if isinstance(n, _ast.Assign) and getattr(n.targets[0], "id", None) == "ALLOWED_IMPORTS":
            return sorted(_ast.literal_eval(n.value))
    return []


def SymPySetOf(xs):
    from pyvc.interp import SymPySet
    return SymPySet(xs)


def expected_candidates(case):
    module_name, level, rel = case
    if level > 0:
        return {"rel"}
    if rel is not None and rel.startswith("apps/"):
        return {f"apps.{module_name}", f"modules.{module_name}"}
    return {f"modules.{module_name}"}


# ----------------------------------------------------------------------------------------------------------
# legacy TrigInfo.__init__: the evaluators of @state_trigger / @state_active / @event_trigger / @mqtt_trigger /
# @webhook_trigger expressions belong to the global context the TRIGGER WAS DECLARED IN (the one passed to TrigInfo),
# whatever context the action function comes from (a wrapper returned by a decorator imported from a module lives there)
# ----------------------------------------------------------------------------------------------------------
def h_triginfo_contexts(eng):
    from pyvc.stmts import Interpreter
    from .common import World
    from . import C09 as c09
    it = Interpreter(eng)
    it.obj_may_be_none = True
    w = World(eng)
    mod, Fn = c09.trig_module(eng, it, w)
    U = "C11/TrigInfo.__init__"
    declared, elsewhere = Rec(name="declaring-global-context"), Rec(name="module-global-context")
    made = []

    def AstEvalStub(it_, name, gctx, logger_name=None):
        r = Rec(fields={"parse": lambda it2, src, mode=None: None, "log_exception": lambda it2, e: None}, name=f"AstEval<{name}>")
        made.append((name, gctx, logger_name))
        return r
    mod.env.vars["AstEval"] = AstEvalStub
    mod.env.vars["STATE_RE"] = Rec(fields={"match": lambda it_, s_: None}, name="STATE_RE")
    Fn._fields["install_ast_funcs"] = lambda it_, a: None
    from .common import QueueS
    mod.env.vars["asyncio"].attrs["Queue"] = lambda it_, n=0: SV(z3.Const("notify_q", QueueS))
    action = Rec(fields={"global_ctx": elsewhere, "global_ctx_name": "modules.helpers", "name": "wrapper"}, name="action")
    present = {k: bool(eng.choose(2, k)) for k in ("state_trigger", "state_active", "event_trigger", "mqtt_trigger", "webhook_trigger")}
    cfg = {"action": action, "global_sym_table": {}}
    if present["state_trigger"]:
        cfg["state_trigger"] = {"args": ["limit > 3 and d.e == '1'"], "kwargs": {}}
    if present["state_active"]:
        cfg["state_active"] = {"args": "limit > 3"}
    for k in ("event_trigger", "mqtt_trigger", "webhook_trigger"):
        if present[k]:
            cfg[k] = {"args": ["name", "limit > 3"], "kwargs": {}}
    cls = mod.env.vars["TrigInfo"]
    k, v = run_catching(it, lambda: it.call(cls, ["file.x.f", cfg, declared], {}))
    eng.cover(f"exit:{k}")
    eng.oblige(f"{U}/post.no-exception", k == "ok")
    if k != "ok":
        return
    want = sum(present.values())
    eng.oblige(f"{U}/post.one-evaluator-per-expression", len(made) == want)
    ob = eng.oblige(f"{U}/post.expression-evaluators-belong-to-the-declaring-context", all(g is declared for _, g, _ in made))
    if ob.status == "refuted":
        ob.witness = {"signature": "trigger-expression-in-another-context", "what": "triginfo-context"}
    eng.oblige(f"{U}/post.the-trigger-keeps-its-declaring-context", it.getattr_(v, "global_ctx") is declared)


def replay_triginfo(wj):
    from replay.native import run_native
    return run_native("c11_trigger_expression_context", wj, timeout=120)


def harnesses():
    hs = [Harness("EvalFunc.call.frame[same-context]", h_call_frame(False), units=[(E_PY, "EvalFunc.call")]),
          Harness("EvalFunc.call.frame[cross-context]", h_call_frame(True), units=[(E_PY, "EvalFunc.call")], replay=replay_call_frame),
          Harness("ast_classdef.frame", h_classdef_frame, units=[(E_PY, "AstEval.ast_classdef")], replay=replay_classdef)]
    hs.append(Harness("TrigInfo.__init__.contexts", h_triginfo_contexts, units=[(f"{PKG}/trigger.py", "TrigInfo.__init__")], replay=replay_triginfo))
    for c in IMPORT_CASES:
        hs.append(Harness(f"module_import[{c[0]},level={c[1]},rel={c[2]}]", h_module_import(c), units=[(GC_PY, "GlobalContext.module_import")]))
    return hs

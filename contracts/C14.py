"""C14 - every run is its own task; exit always cleans up.

Units (function.py): run_coro (callbacks + cleanup on every exit mode), create_task, task_done_callback_ctx,
task_add_done_callback, user_task_remove_done_callback, user_task_cancel; (trigger.py) user_task_create,
user_task_add_done_callback, user_task_executor.
"""
from __future__ import annotations

import z3

from pyvc.framework import Harness
from .common import *  # noqa
from . import C13 as c13

PROPERTY = "C14"
F_PY = f"{PKG}/function.py"
T_PY = f"{PKG}/trigger.py"

ASSUMPTIONS = [
    A_LOG, A_NOALIAS, A_COOP,
    "a done-callback is user code: it may suspend (yield point; other tasks run), raise any Exception, or be "
    "cancelled at its await; while it runs, rows of OTHER tasks in the registries may change arbitrarily (subject to "
    "I_unique) but the rows of the exiting task do not (only its own run_coro writes them after exit began) - this assumption "
    "is what hid a genuine defect: a done-callback that edits the callback table of ITS OWN task (task.remove_done_callback / "
    "task.add_done_callback) is outside it; that case is covered by the bounded stand-in bounded.callback-edits-table only",
    "ast_ctx.call_func(callback, None, *args, **kwargs) calls the callback once with those arguments (C03 territory)",
    "independence / non-delay of tasks is asyncio's scheduling (not decided); hass.async_add_executor_job runs the "
    "job off-loop and returns its value or raises its exception (assumed)",
    "A-REAPER: Function.reaper_cancel(task) eventually cancels the task (liveness, not decided)",
]
NOT_DECIDED = ["a run never *delays* another (scheduler fairness)", "the cancelled task has ended (liveness)",
               "done-callbacks that edit their own task's callback table while the table is being run: bounded histories only "
               "(the loop contract of run_coro#for0 assumes the exiting task's rows are stable)"]
SHAPE_BOUNDS = {"arguments stored with a done-callback": "opaque tuple / dict (identity compared)"}
LEVEL_TEXT = ("Proof, unbounded in registry contents and in the number of callbacks (loop invariant over the visited "
              "set): on every exit mode of Function.run_coro (return / exception / cancellation) the task disappears "
              "from our_tasks, task2cb, task2context and the unique-name maps and each registered done-callback is "
              "called exactly once with its stored arguments; registry operations (add / remove / ctx) are verified "
              "against map contracts; 'one task per occurrence' is checked structurally on user_task_create.")

CbS = ObjS


def setup(eng):
    it, w, mod, Fn, S = c13.setup(eng)
    called = Store(eng, "ghost.called", TSet(ObjS))
    S["called"] = called
    info_args = z3.Function("info_args", ObjS, ObjS)
    info_kwargs = z3.Function("info_kwargs", ObjS, ObjS)
    S["info_args"], S["info_kwargs"] = info_args, info_kwargs
    cur = S["cur"]

    def mk_ctx():
        def call_func(i, callback, name, *a, **k):
            def th():
                w.emit("cb", callback, a, k)
                # arguments are checked at the moment of the call (every iteration of the loop)
                info = z3.Select(z3.Select(S["t2cb"].cols[".cb:.v"], cur), callback.t)
                eng.oblige("C14/Function.run_coro/post.callback-gets-its-stored-arguments",
                           len(a) == 1 and "kw" in k and z3.And(a[0].t == info_args(info), k["kw"].t == info_kwargs(info)))
                mode = ["returns", "raises", "cancelled"][eng.choose(3, "callback")]
                # user code may suspend before finishing
                w.yield_point("done-callback", cancellable=False)
                if mode == "cancelled":
                    raise exc("CancelledError")
                called.view().add(callback)
                if mode == "raises":
                    raise exc("UserException", "callback failed")
                return None
            return Coro(th, "call_func")
        return Rec(fields={"call_func": call_func, "log_exception": lambda i, e: w.emit("log_exception", e)},
                   name="cb_ast_ctx")

    # the stored info object [ast_ctx, args, kwargs] is opaque; unpacking it yields its three components
    def info_iter(i, sv):
        return [mk_ctx(), (SV(info_args(sv.t)),), {"kw": SV(info_kwargs(sv.t))}]
    it.method_tables[("Obj", "__iter__")] = info_iter
    return it, w, mod, Fn, S


def I_cb(T):
    """Representation invariant of task2cb: every entry has both fields 'ctx' and 'cb' (the only constructor,
    task_done_callback_ctx, writes both)."""
    return Forall([TaskS], lambda t: z3.Implies(z3.Select(T["dom"], t),
                                                z3.And(z3.Select(T[".ctx?"], t), z3.Select(T[".cb?"], t))), "I_cb")


def _patch_iterate(it):
    orig = it.iterate

    def iterate(v):
        if isinstance(v, SV) and v.none is None and v.t.sort() == ObjS:
            return it.method_tables[("Obj", "__iter__")](it, v)
        return orig(v)
    it.iterate = iterate


def cur_rows_stable(S):
    """Facts that survive a yield inside run_coro's finally block: rows of the exiting task."""
    t2cb, t2n, ours, t2ctx, called, cur = S["t2cb"], S["t2n"], S["ours"], S["t2ctx"], S["called"], S["cur"]

    def stable(snaps):
        # snaps follow w.shared order: n2t, t2n, ours, t2ctx, t2cb
        s_t2n, s_ours, s_t2ctx, s_t2cb = snaps[1], snaps[2], snaps[3], snaps[4]
        out = [z3.Select(ours.cols["in"], cur) == z3.Select(s_ours["in"], cur),
               z3.Select(t2n.cols["dom"], cur) == z3.Select(s_t2n["dom"], cur),
               z3.Select(t2n.cols[".in"], cur) == z3.Select(s_t2n[".in"], cur),
               z3.Select(t2ctx.cols["dom"], cur) == z3.Select(s_t2ctx["dom"], cur)]
        for c in s_t2cb:
            out.append(z3.Select(t2cb.cols[c], cur) == z3.Select(s_t2cb[c], cur))
        return out
    return stable


def h_run_coro(eng):
    it, w, mod, Fn, S = setup(eng)
    _patch_iterate(it)
    n2t, t2n, ours, t2ctx, t2cb, cur, called = S["n2t"], S["t2n"], S["ours"], S["t2ctx"], S["t2cb"], S["cur"], S["called"]
    U = "C14/Function.run_coro"
    w.stable = [cur_rows_stable(S)]
    w.check_inv_at_yield = True
    w.inv_name = "C14/Function.run_coro/I_unique"
    eng.assume(c13.I_unique(n2t.snapshot(), t2n.snapshot()))
    eng.assume(I_cb(t2cb.snapshot()))
    w.invariants.append(lambda: [I_cb(t2cb.snapshot())])
    mode = ["return", "raise", "cancel"][eng.choose(3, "coro")]
    result = z3.Const("coro_result", ObjS)

    def body():
        w.yield_point("user-coro", cancellable=False)
        if mode == "raise":
            raise exc("UserException")
        if mode == "cancel":
            raise exc("CancelledError")
        return SV(result)

    fn = mod.func("Function.run_coro")
    number_loops(fn.node)
    cbs0 = {}

    def cb_spec():
        # snapshot of the callback map of the exiting task at loop entry
        CB = t2cb.snapshot()
        members = z3.Select(CB[".cb:dom"], cur)
        cbs0["members"] = members
        cbs0["called0"] = called.snapshot()["in"]

        snaps0 = [st.snapshot() for st in w.shared]
        stable = cur_rows_stable(S)

        def inv(interp, env, visited, mem):
            # exactly the visited callbacks have been called (no one twice: `called` is a set, and each visit adds
            # one element not visited before); the shared invariants hold; the exiting task's rows are untouched
            return [Forall([ObjS], lambda c: z3.Select(called.cols["in"], c) ==
                           z3.Or(z3.Select(cbs0["called0"], c), z3.Select(visited, c)), "c"),
                    c13.I_unique(n2t.snapshot(), t2n.snapshot()), I_cb(t2cb.snapshot())] + stable(snaps0)
        return LoopSpec(inv, [called, n2t, t2n, ours, t2ctx, t2cb], "callbacks")

    it.loop_specs[("Function.run_coro", "for0")] = c13.LazySpec(cb_spec)
    it.loop_specs[("Function.run_coro", "for1")] = c13.LazySpec(lambda: c13.run_coro_loopspecs(it, S, cur)["names"])
    eng.assume(called.cols["in"] == z3.K(ObjS, z3.BoolVal(False)))
    ast_ctx = None
    kind, val = run_catching(it, lambda: it.await_(it.call(it.getattr_(Fn, "run_coro"), [Coro(body, "user-coro")], {})))
    eng.cover(f"exit:{mode}:{kind}")
    cancelled_in_cb = any(p == "callback=2" for p in eng.path_log)
    raised_in_cb = any(p == "callback=1" for p in eng.path_log)

    def wit(sig):
        return {"signature": sig, "coro": mode}

    sig = "cancelled-inside-done-callback" if cancelled_in_cb else ("callback-raises" if raised_in_cb else "plain")
    ob = eng.oblige(f"{U}/post.task-forgotten-in-every-registry",
                    z3.And(z3.Not(z3.Select(ours.cols["in"], cur)), z3.Not(z3.Select(t2cb.cols["dom"], cur)),
                           z3.Not(z3.Select(t2ctx.cols["dom"], cur)), z3.Not(z3.Select(t2n.cols["dom"], cur))))
    if ob.status == "refuted":
        ob.witness = wit(sig)
    ob = eng.oblige(f"{U}/post.unique-names-released",
                    Forall([StrS], lambda n: z3.Not(c13.owner_is(n2t.snapshot(), n, cur)), "n"))
    if ob.status == "refuted":
        ob.witness = wit(sig)
    if "members" in cbs0 and not cancelled_in_cb:
        ob = eng.oblige(f"{U}/post.every-done-callback-called-exactly-once",
                        Forall([ObjS], lambda c: z3.Select(called.cols["in"], c) == z3.Select(cbs0["members"], c), "c"))
        if ob.status == "refuted":
            ob.witness = wit(sig)
    if mode == "cancel" or cancelled_in_cb:
        eng.oblige(f"{U}/post.cancellation-propagates", kind == "exc" and val.cls.name == "CancelledError")
    else:
        eng.oblige(f"{U}/post.nothing-else-escapes", kind == "ok")
        if mode == "return":
            eng.oblige(f"{U}/post.returns-coro-result", kind == "ok" and it.eq(val, SV(result)))


def info_of(t2cb, w, cur, cbk):
    """The info object stored for callback cbk in the exiting task's row (rows of cur are stable across yields)."""
    return z3.Select(z3.Select(t2cb.cols[".cb:.v"], cur), cbk.t) if cbk.t is not None else None


def replay_run_coro(wj):
    from replay.native import run_native
    return run_native("c14_run_coro_exit", wj)


# ----------------------------------------------------------------------------------------------------------
# registry operations
# ----------------------------------------------------------------------------------------------------------
def h_registry(eng):
    it, w, mod, Fn, S = setup(eng)
    t2cb = S["t2cb"]
    U = "C14/registry"
    task = z3.Const("task", TaskS)
    ctx1, ctx2 = z3.Const("ast_ctx1", ObjS), z3.Const("ast_ctx2", ObjS)
    cb = z3.Const("callback", ObjS)
    T0 = t2cb.snapshot()
    eng.assume(I_cb(T0))
    # task_done_callback_ctx: sets the ctx once, creating an empty callback table; later calls keep both
    it.call(it.getattr_(Fn, "task_done_callback_ctx"), [SV(task), SV(ctx1)], {})
    T1 = t2cb.snapshot()
    had = z3.And(z3.Select(T0["dom"], task), z3.Select(T0[".ctx?"], task))
    eng.cover("ran")
    eng.oblige(f"{U}/task_done_callback_ctx/post.entry-exists", z3.And(z3.Select(T1["dom"], task), z3.Select(T1[".ctx?"], task)))
    eng.oblige(f"{U}/task_done_callback_ctx/post.keeps-existing-ctx-and-callbacks", z3.Implies(had, z3.And(
        z3.Select(T1[".ctx:v"], task) == z3.Select(T0[".ctx:v"], task),
        z3.Select(T1[".cb:dom"], task) == z3.Select(T0[".cb:dom"], task))))
    eng.oblige(f"{U}/task_done_callback_ctx/post.fresh-entry-has-no-callbacks", z3.Implies(z3.Not(had), z3.And(
        z3.Select(T1[".ctx:v"], task) == ctx1,
        z3.Select(T1[".cb:dom"], task) == z3.K(ObjS, z3.BoolVal(False)))))
    eng.oblige(f"{U}/task_done_callback_ctx/frame.other-tasks", Forall([TaskS], lambda t: z3.Implies(t != task, z3.And(
        z3.Select(T1["dom"], t) == z3.Select(T0["dom"], t),
        z3.Select(T1[".cb:dom"], t) == z3.Select(T0[".cb:dom"], t))), "t"))
    # task_add_done_callback: one entry per callback function (replacement), arguments stored
    a1 = (SV(z3.Const("arg1", ObjS)),)
    k, v = run_catching(it, lambda: it.call(it.getattr_(Fn, "task_add_done_callback"), [SV(task), SV(ctx2), SV(cb)] + list(a1), {"x": SV(z3.Const("kwx", ObjS))}))
    T2 = t2cb.snapshot()
    eng.oblige(f"{U}/task_add_done_callback/post.registered", k == "ok" and z3.Select(z3.Select(T2[".cb:dom"], task), cb))
    eng.oblige(f"{U}/task_add_done_callback/frame.other-callbacks-kept", Forall([ObjS], lambda c: z3.Implies(c != cb,
               z3.Select(z3.Select(T2[".cb:dom"], task), c) == z3.Select(z3.Select(T1[".cb:dom"], task), c)), "c"))
    # remove_done_callback: removes that callback only; absent callback is not an error
    k2, _ = run_catching(it, lambda: it.call(it.getattr_(Fn, "user_task_remove_done_callback"), [SV(task), SV(cb)], {}))
    T3 = t2cb.snapshot()
    eng.oblige(f"{U}/user_task_remove_done_callback/post.removed", k2 == "ok" and z3.Not(z3.Select(z3.Select(T3[".cb:dom"], task), cb)))
    eng.oblige(f"{U}/user_task_remove_done_callback/frame.other-callbacks-kept", Forall([ObjS], lambda c: z3.Implies(c != cb,
               z3.Select(z3.Select(T3[".cb:dom"], task), c) == z3.Select(z3.Select(T2[".cb:dom"], task), c)), "c"))
    k3, _ = run_catching(it, lambda: it.call(it.getattr_(Fn, "user_task_remove_done_callback"), [SV(task), SV(cb)], {}))
    eng.oblige(f"{U}/user_task_remove_done_callback/post.absent-callback-is-not-an-error", k3 == "ok")
    eng.oblige(f"{U}/post.I_cb", I_cb(t2cb.snapshot()))


def h_add_cb_unknown(eng):
    """task.add_done_callback on a task pyscript keeps no record of (it has ended - run_coro forgot it - or it never was a
    pyscript task): no record may be created (nothing would ever forget it again, and the callback would never run), so the
    call has to be refused."""
    it, w, mod, Fn, S = setup(eng)
    t2cb = S["t2cb"]
    U = "C14/registry/task_add_done_callback"
    task = z3.Const("task", TaskS)
    cb = z3.Const("callback", ObjS)
    T0 = t2cb.snapshot()
    eng.assume(I_cb(T0))
    eng.assume(z3.Not(z3.Select(T0["dom"], task)))
    ctx = [None, SV(z3.Const("ast_ctx", ObjS))][eng.choose(2, "ast_ctx-given")]
    k, v = run_catching(it, lambda: it.call(it.getattr_(Fn, "task_add_done_callback"), [SV(task), ctx, SV(cb)], {}))
    eng.cover(f"unknown:{k}")
    T1 = t2cb.snapshot()
    ob = eng.oblige(f"{U}/unknown-task.no-record-is-created", z3.Not(z3.Select(T1["dom"], task)))
    if ob.status == "refuted":
        ob.witness = {"signature": "late-done-callback"}
    eng.oblige(f"{U}/unknown-task.refused", k == "exc" and v.cls.name == "KeyError")
    eng.oblige(f"{U}/unknown-task.frame", Forall([TaskS], lambda t: z3.Implies(t != task, z3.And(
        z3.Select(T1["dom"], t) == z3.Select(T0["dom"], t), z3.Select(T1[".cb:dom"], t) == z3.Select(T0[".cb:dom"], t))), "t"))


def replay_late_cb(wj):
    from replay.native import run_native
    return run_native("c14_late_done_callback", wj)


def h_reaper(eng):
    """The reaper task (the coroutine task_reaper defined inside Function.init, cut out of it mechanically): commands are handled
    strictly one after the other, and a 'cancel' command is finished only when the cancelled task HAS ENDED - its exit path
    (done callbacks, release of its unique names) runs to completion before the next command is taken, so that a second cancel
    request cannot land inside that exit path.  Errors never end the reaper."""
    import ast as _ast
    from pyvc.interp import Env, EXC as _EXC
    from pyvc.loader import parse_file
    it = Interpreter(eng)
    w = World(eng)
    tree, _ = parse_file(F_PY)
    cls = next(n for n in tree.body if isinstance(n, _ast.ClassDef) and n.name == "Function")
    init = next(n for n in cls.body if isinstance(n, _ast.FunctionDef) and n.name == "init")
    fn = next(n for n in _ast.walk(init) if isinstance(n, _ast.AsyncFunctionDef) and n.name == "task_reaper")
    U = "C14/Function.init.task_reaper"
    state = {"ended": False, "cancelled": 0}
    how = ["ends-cancelled", "ends-with-error", "ends-normally"][eng.choose(3, "how-the-task-ends")]

    def t_await(i):
        # awaiting a task waits until it has ended, and re-raises how it ended
        w.emit("task-ended")
        state["ended"] = True
        if how == "ends-cancelled":
            raise exc("CancelledError")
        if how == "ends-with-error":
            raise exc("UserException", "task failed")
        return None
    task = Rec(fields={"cancel": lambda i: state.__setitem__("cancelled", state["cancelled"] + 1), "__await__": t_await}, name="task")
    seen = []
    cmds = [["cancel", task], ["bogus"], ["exit"]]

    def q_get(i):
        def th():
            c = cmds.pop(0)
            seen.append((c[0], state["ended"]))
            return c
        return Coro(th, "reaper_q.get")

    def a_wait(i, aws, timeout=None, **k):
        # asyncio.wait with a timeout may come back before the tasks have ended
        def th():
            if timeout is None or eng.choose(2, "wait-timed-out") == 0:
                w.emit("task-ended")
                state["ended"] = True
            return (None, None)
        return Coro(th, "asyncio.wait")
    logged = []
    env = Env(vars={"reaper_q": Rec(fields={"get": q_get}, name="reaper_q"),
                    "asyncio": PyModule("asyncio", {"CancelledError": _EXC["CancelledError"], "wait": a_wait, "TimeoutError": _EXC["TimeoutError"],
                                                    "wait_for": lambda i, aw, timeout=None: aw, "shield": lambda i, aw: aw}),
                    "_LOGGER": Rec(fields={"error": lambda i, *a: logged.append(a), "debug": lambda i, *a: None}, name="_LOGGER"),
                    "traceback": traceback_stub()})
    from pyvc.interp import _Return

    def run_body():
        try:
            it.exec_block(fn.body, env)
        except _Return:
            pass            # the coroutine's `return` on the exit command
    k, v = run_catching(it, run_body)
    eng.cover(f"ran:{k}:{how}")
    eng.oblige(f"{U}/post.runs-until-the-exit-command", k == "ok" and [c for c, _ in seen] == ["cancel", "bogus", "exit"])
    eng.oblige(f"{U}/post.the-task-is-cancelled-once", state["cancelled"] == 1)
    ob = eng.oblige(f"{U}/post.next-command-only-after-the-cancelled-task-has-ended", len(seen) >= 2 and seen[1][1] is True)
    if ob.status == "refuted":
        ob.witness = {"signature": "reaper-moves-on-before-the-task-ended"}
    eng.oblige(f"{U}/post.unknown-command-is-reported-not-fatal", len(logged) == (2 if how == "ends-with-error" else 1))


def h_cancel(eng):
    it, w, mod, Fn, S = setup(eng)
    ours, cur = S["ours"], S["cur"]
    U = "C14/Function.user_task_cancel"
    other = z3.Const("other_task", TaskS)
    which = ["self", "other"][eng.choose(2, "target")]
    args = [] if which == "self" else [SV(other)]
    target = cur if which == "self" else other
    O0 = ours.snapshot()
    eng.assume(c13.I_unique(S["n2t"].snapshot(), S["t2n"].snapshot()))
    k, v = run_catching(it, lambda: it.await_(it.call(it.getattr_(Fn, "user_task_cancel"), args, {})))
    eng.cover(f"{which}:{k}")
    reaps = w.events("reap")
    mine = z3.Select(O0["in"], target)
    if k == "exc" and v.cls.name == "TypeError":
        eng.oblige(f"{U}/post.foreign-task-rejected-untouched", z3.And(z3.Not(mine), len(reaps) == 0))
    else:
        eng.oblige(f"{U}/post.pyscript-task-handed-to-reaper-once",
                   z3.And(mine, len(reaps) == 1 and it.eq(reaps[0][1], SV(target))))
        if which == "self":
            eng.oblige(f"{U}/post.self-cancel-waits-to-be-cancelled", w.count("yield") == 1)
        else:
            eng.oblige(f"{U}/post.cancel-of-other-returns-at-once", k == "ok" and w.count("yield") == 0)


def h_task_create(eng):
    """task.create: exactly one new task per call, running the function under its own evaluator; user errors are
    logged on that evaluator and do not escape the task."""
    it = Interpreter(eng)
    w = World(eng)
    created = []

    def AstEval(i, name, gctx):
        a = Rec(fields={"name": name}, name="new_ast_ctx")

        def call_func(i2, func, fname, *args, **kw):
            def th():
                w.emit("call_func", func, fname, args, kw)
                if eng.choose(2, "user-func-raises") == 0:
                    raise exc("UserException", "boom")
                return SV(z3.Const("user_result", ObjS))
            return Coro(th, "call_func")
        a._fields["call_func"] = call_func
        a._fields["log_exception"] = lambda i2, e: w.emit("log_exception", a, e)
        created.append(a)
        return a

    tasks = []

    def create_task(i, coro, ast_ctx=None):
        t = Rec(fields={"coro": coro, "ast_ctx": ast_ctx}, name=f"task{len(tasks)}")
        tasks.append(t)
        w.emit("create_task", coro, ast_ctx)
        return t

    Fn = Rec(fields={"create_task": create_task, "install_ast_funcs": lambda i, a: w.emit("install", a),
                     "task_done_callback_ctx": lambda i, t, a: w.emit("cb_ctx", t, a),
                     "register_ast": lambda i, d: w.emit("register_ast", d), "register": lambda i, d: w.emit("register", d)},
             name="Function")
    EF, EFV = ClassRec("EvalFunc"), ClassRec("EvalFuncVar")
    mod = Module(it, T_PY, stubs={"_LOGGER": logger_stub(), "Function": Fn, "AstEval": AstEval, "EvalFunc": EF,
                                 "EvalFuncVar": EFV, "locale": PyModule("locale", {}),
                                 "asyncio": PyModule("asyncio", {"CancelledError": EXC["CancelledError"]})})
    TT = mod.env.vars["TrigTime"]
    U = "C14/TrigTime.init.user_task_create"
    hass = Rec(name="hass")
    try:
        it.call(it.getattr_(TT, "init"), [hass], {})
    except (Raised, OutOfReach):
        pass  # the locale part after the registrations is not needed (and not modelled)
    regs = w.events("register_ast")
    eng.oblige(f"{U}/registered-as-task.create", len(regs) >= 1 and "task.create" in regs[0][1])
    if not regs:
        return
    factory = regs[0][1]["task.create"]
    gctx = Rec(name="gctx")
    ast_ctx = Rec(fields={"get_global_ctx_name": lambda i: "file.x", "get_global_ctx": lambda i: gctx}, name="ast_ctx")
    create = it.call(factory, [ast_ctx], {})
    func = Rec(cls=EFV, fields={"get_name": lambda i: "worker"}, name="user_func")
    a1 = SV(z3.Const("arg1", ObjS))
    k, task = run_catching(it, lambda: it.await_(it.call(create, [func, a1], {"kw": SV(z3.Const("kw1", ObjS))})))
    eng.cover("ran")
    eng.oblige(f"{U}/post.exactly-one-task-created", k == "ok" and len(tasks) == 1 and task is tasks[0])
    eng.oblige(f"{U}/post.own-evaluator-registered-for-callbacks",
               len(created) == 1 and tasks and tasks[0]._fields["ast_ctx"] is created[0]
               and [e[1:] for e in w.events("cb_ctx")] == [(tasks[0], created[0])])
    eng.oblige(f"{U}/post.function-not-run-by-the-caller", w.count("call_func") == 0)
    # now the new task runs: the function is called once with the given arguments; errors are contained
    k2, v2 = run_catching(it, lambda: it.await_(tasks[0]._fields["coro"]))
    calls = w.events("call_func")
    eng.oblige(f"{U}/task.calls-function-once-with-arguments",
               len(calls) == 1 and calls[0][1] is func and calls[0][2] == "worker" and len(calls[0][3]) == 1
               and calls[0][3][0] is a1 and list(calls[0][4]) == ["kw"])
    raised = any(p == "user-func-raises=0" for p in eng.path_log)
    eng.oblige(f"{U}/task.user-error-contained-and-logged-once",
               k2 == "ok" and len(w.events("log_exception")) == (1 if raised else 0)
               and all(e[1] is created[0] for e in w.events("log_exception")))


def h_executor(eng):
    """task.executor(func, *args, **kwargs): func runs exactly once, in an executor job, with those arguments; the caller gets
    what func returns - whatever object that is, an exception INSTANCE included - and an exception func raises is raised."""
    from pyvc.interp import ExcVal, EXC
    it = Interpreter(eng)
    w = World(eng)
    EFV = ClassRec("EvalFuncVar")
    kinds = ["plain", "coroutinefunction", "pyscript-function", "not-callable"]
    kindsel = kinds[eng.choose(4, "func")]
    outcome = ["returns-a-value", "returns-an-exception-object", "raises"][eng.choose(3, "job")] if kindsel == "plain" else "never-called"
    result = SV(z3.Const("job_result", ObjS))
    returned_exc = ExcVal(EXC["UserException"], ("the last error, returned as a value",))
    calls = []

    def user_func(i, *a, **kw):
        calls.append((tuple(a), dict(kw), len(w.events("executor_job"))))
        if outcome == "raises":
            raise exc("UserException", "job failed")
        return returned_exc if outcome == "returns-an-exception-object" else result

    def add_executor_job(i, target, *args):
        def th():
            w.emit("executor_job", target, args)
            return i.call(target, list(args), {})     # the executor runs target(*args); its result / exception is the job's
        return Coro(th, "async_add_executor_job")

    def partial(i, f, *a, **kw):
        return Rec(fields={"__call__": lambda i2, *a2, **kw2: i2.call(f, list(a) + list(a2), {**kw, **kw2})}, name="functools.partial")

    hass = Rec(fields={"async_add_executor_job": add_executor_job}, name="hass")
    func = Rec(cls=EFV if kindsel == "pyscript-function" else None, fields={"__call__": user_func} if kindsel != "not-callable" else {}, name="func")
    mod = Module(it, T_PY, stubs={"_LOGGER": logger_stub(), "EvalFuncVar": EFV, "EvalFunc": ClassRec("EvalFunc"),
                                 "asyncio": PyModule("asyncio", {"iscoroutinefunction": lambda i, f: kindsel == "coroutinefunction"}),
                                 "functools": PyModule("functools", {"partial": partial}),
                                 "callable": lambda i, f: kindsel != "not-callable"},
                 class_state={"TrigTime": {"hass": hass}})
    TT = mod.env.vars["TrigTime"]
    U = "C14/TrigTime.user_task_executor"
    a1, kw1 = SV(z3.Const("arg1", ObjS)), SV(z3.Const("kw1", ObjS))
    k, v = run_catching(it, lambda: it.await_(it.call(it.getattr_(TT, "user_task_executor"), [func, a1], {"kw": kw1})))
    eng.cover(f"{kindsel}:{outcome}:{k}")
    jobs = w.events("executor_job")
    if kindsel != "plain":
        eng.oblige(f"{U}/post.rejects-coroutines-pyscript-functions-and-non-callables",
                   k == "exc" and v.cls.name == "TypeError" and jobs == [] and calls == [])
        return
    eng.oblige(f"{U}/post.runs-off-loop-once-with-arguments",
               len(jobs) == 1 and len(calls) == 1 and calls[0][0] == (a1,) and calls[0][1] == {"kw": kw1} and calls[0][2] == 1)
    if outcome == "raises":
        ok = k == "exc" and v.cls.name == "UserException"
    elif outcome == "returns-an-exception-object":
        ok = k == "ok" and v is returned_exc
    else:
        ok = k == "ok" and v is result
    ob = eng.oblige(f"{U}/post.returns-value-or-raises-its-exception", ok)
    if ob.status == "refuted":
        ob.witness = {"signature": f"executor:{outcome}", "outcome": outcome}


def bounded_callback_edits(seed):
    from replay.native import run_native
    return run_native("c14_callback_edits_callbacks", {"seed": seed}, timeout=300)


def replay_executor(wj):
    from replay.native import run_native
    return run_native("c14_executor", wj, timeout=120)


def harnesses():
    return [
        Harness("run_coro.exit", h_run_coro, units=[(F_PY, "Function.run_coro")], replay=replay_run_coro),
        Harness("registry", h_registry, units=[(F_PY, "Function.task_done_callback_ctx"), (F_PY, "Function.task_add_done_callback"),
                                               (F_PY, "Function.user_task_remove_done_callback")]),
        Harness("registry.unknown-task", h_add_cb_unknown, units=[(F_PY, "Function.task_add_done_callback")], replay=replay_late_cb),
        Harness("reaper", h_reaper, units=[(F_PY, "Function.init")]),
        Harness("user_task_cancel", h_cancel, units=[(F_PY, "Function.user_task_cancel")]),
        Harness("task.create", h_task_create, units=[(T_PY, "TrigTime.init")]),
        Harness("bounded.callback-edits-table", bounded_callback_edits, units=[(F_PY, "Function.run_coro"), (F_PY, "Function.task_add_done_callback"),
                                                                               (F_PY, "Function.user_task_remove_done_callback")], kind="bounded"),
        Harness("task.executor", h_executor, units=[(T_PY, "TrigTime.user_task_executor")], replay=replay_executor),
        mutator_closure_harness("C14", "task-registries", {"our_tasks": {"cls", "Function"}, "task2cb": {"cls", "Function"},
                                                           "task2context": {"cls", "Function"}},
                                {"Function.run_coro", "Function.store_hass_context", "Function.task_done_callback_ctx",
                                 "Function.task_add_done_callback", "Function.user_task_remove_done_callback"}),
    ]

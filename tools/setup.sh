#!/bin/sh
# Build /verif/.venv: python 3.12 (same interpreter as the repo's /venv) + solver wheels from the offline
# wheelhouse, with /venv's site-packages overlaid so Home Assistant and the repo deps import for native replay.
set -e
cd "$(dirname "$0")/.."
if [ -x .venv/bin/python ] && .venv/bin/python -c "import z3, cvc5, jsonschema, homeassistant" 2>/dev/null; then
  echo "setup: .venv already usable"; exit 0
fi
rm -rf .venv
/venv/bin/python -m venv .venv
PIP_NO_INDEX=1 .venv/bin/python -m pip install -q --no-index --find-links /opt/veriftools/wheels z3-solver cvc5 jsonschema
SP=$(.venv/bin/python -c "import sysconfig; print(sysconfig.get_paths()['purelib'])")
echo "import site; site.addsitedir('/venv/lib/python3.12/site-packages')" > "$SP/zz_overlay_venv.pth"
.venv/bin/python -c "import z3, cvc5, jsonschema, homeassistant; print('setup: ok z3', z3.get_version_string())"

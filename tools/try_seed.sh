#!/bin/sh
# tools/try_seed.sh <patch.diff> <Cxx> [<Cyy> ...] : apply a seeded change to /repo, run the checks, undo it.
P="$1"; shift
git -C /repo apply "$P" || { echo "patch does not apply"; exit 9; }
for c in "$@"; do (cd /verif && ./check $c --no-evidence 2>&1 | grep -E "^VIOLATION|^UNDECIDED|^CHECKER|exit=" ); done
git -C /repo apply -R "$P"
git -C /repo status --short | grep -v egg-info

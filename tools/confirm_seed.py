#!/usr/bin/env python3
"""Confirm a seeded change independently in a scratch worktree (outside /repo and /verif), then store it under
/verif/seeded/<Cxx>-<k>/ (patch.diff, demo, meta.json).  Usage: confirm_seed.py C13 1 [C13 2 ...]
Checks: (a) demo passes on the clean tree, (b) demo fails with the patch, (c) all 88 stable_pass tests pass
with the patch.  The worktree is removed afterwards."""
import json, os, shutil, subprocess, sys, xml.etree.ElementTree as ET

VERIF = os.path.dirname(os.path.dirname(os.path.abspath(__file__)))
BASE = json.load(open("/root/.vp/BASELINE.json"))
STABLE = set(BASE["stable_pass"])


def sh(cmd, cwd=None, timeout=1800):
    return subprocess.run(cmd, shell=True, cwd=cwd, capture_output=True, text=True, errors="replace", timeout=timeout)


def confirm(pid, k):
    root = os.environ.get("SEED_ROOT", "/tmp/wt")
    out = f"{root}/out_{pid}"
    wt = f"{root}/confirm_{pid}_{k}"
    sh(f"git -C /repo worktree remove --force {wt}")
    r = sh(f"git -C /repo worktree add -f {wt} HEAD")
    assert os.path.isdir(wt), r.stderr
    meta = {"property": pid, "k": k}
    try:
        notes = json.load(open(f"{out}/notes{k}.json"))
        demo_rel = f"tests/test_demo{k}.py"
        shutil.copy(f"{out}/demo{k}.py", os.path.join(wt, demo_rel))
        cmd = f"/venv/bin/python -m pytest -q -p no:cacheprovider --timeout=600 {demo_rel}"
        src = open(f"{out}/demo{k}.py").read()
        if "def test_" not in src:
            # a standalone program (exit code 0 = property holds)
            cmd = f"/venv/bin/python {demo_rel}"
        clean = sh(cmd, cwd=wt)
        ap = sh(f"git apply {out}/patch{k}.diff", cwd=wt)
        if ap.returncode != 0:
            meta["error"] = "patch does not apply: " + ap.stderr[-500:]
            return meta
        comp = sh("/venv/bin/python -m compileall -q custom_components/pyscript", cwd=wt)
        patched = sh(cmd, cwd=wt)
        os.remove(os.path.join(wt, demo_rel))
        junit = os.path.join(wt, "junit.xml")
        suite = sh(f"/venv/bin/python -m pytest -ra -q -p no:cacheprovider --timeout=900 --continue-on-collection-errors --junitxml={junit}", cwd=wt)
        passed = set()
        if os.path.exists(junit):
            for tc in ET.parse(junit).getroot().iter("testcase"):
                if not any(ch.tag in ("failure", "error", "skipped") for ch in tc):
                    passed.add(f"{tc.get('classname')}::{tc.get('name')}")
        missing = sorted(STABLE - passed)
        meta.update({
            "breaks_property": pid,
            "what_changed": notes.get("what_changed"), "files_changed": notes.get("files_changed"),
            "needs_to_manifest": notes.get("needs_to_manifest"),
            "demo": f"demo.py (place at tests/test_demo{k}.py in a worktree of the repo)", "demo_cmd": cmd,
            "confirmed": {
                "demo_on_clean_tree": "pass" if clean.returncode == 0 else f"FAIL rc={clean.returncode}",
                "demo_with_patch": "fail" if patched.returncode != 0 else "PASS (unexpected)",
                "compiles": comp.returncode == 0,
                "stable_tests_passing_with_patch": len(STABLE) - len(missing), "stable_missing": missing,
                "what_i_ran": ["git worktree add (scratch, removed afterwards)", cmd + " (clean, then patched)",
                               "full pinned suite with the patch, compared with BASELINE.json stable_pass"],
            },
        })
        ok = clean.returncode == 0 and patched.returncode != 0 and comp.returncode == 0 and not missing
        meta["kept"] = ok
        meta["demo_tail_with_patch"] = patched.stdout[-600:]
        if ok:
            d = os.path.join(VERIF, "seeded", f"{pid}-{k}")
            os.makedirs(d, exist_ok=True)
            shutil.copy(f"{out}/patch{k}.diff", os.path.join(d, "patch.diff"))
            shutil.copy(f"{out}/demo{k}.py", os.path.join(d, "demo.py"))
            json.dump(meta, open(os.path.join(d, "meta.json"), "w"), indent=1)
        return meta
    finally:
        sh(f"git -C /repo worktree remove --force {wt}")
        shutil.rmtree(wt, ignore_errors=True)


if __name__ == "__main__":
    a = sys.argv[1:]
    for pid, k in zip(a[0::2], a[1::2]):
        m = confirm(pid, int(k))
        print(pid, k, "KEPT" if m.get("kept") else "REJECTED", json.dumps(m.get("confirmed", m.get("error")))[:400], flush=True)

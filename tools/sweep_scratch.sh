#!/bin/sh
# tools/sweep_scratch.sh [<glob, default seeded/C*-*/> [<output file> [<jobs>]]] : like sweep_seeds.sh, but every seed is applied to its
# own scratch copy of /repo's HEAD (tools/try_seed_scratch.sh), so /repo is not touched and seeds run in parallel.
cd /verif
GLOB=${1:-seeded/C*-*/}
OUT=${2:-/verif/seeded/SWEEP.txt}
JOBS=${3:-6}
TMP=$(mktemp -d /tmp/sweep.XXXXXX)
for d in $GLOB; do
  id=$(basename $d); pid=${id%-*}
  also=""; [ -f $d/also_checked_by ] && also=$(cat $d/also_checked_by)
  echo "$id $pid $also" | sed "s/ *$//"
done | xargs -P $JOBS -L 1 sh -c '/verif/tools/try_seed_scratch.sh "$0" "$@" > '"$TMP"'/$0.out 2>&1' 
cat $TMP/*.out | sort > $OUT
echo DONE >> $OUT
rm -rf $TMP

#!/bin/sh
# tools/sweep_seeds.sh : apply every seeded change in /verif/seeded to /repo in turn, run the check of its property
# (plus the neighbouring checks recorded in seeded/<id>/also_checked_by), undo it; writes /verif/seeded/SWEEP.txt.
# Sequential on purpose: it edits /repo's working tree.  Do not run other checks while it runs.
cd /verif
# usage: sweep_seeds.sh [<glob of seed directories, default seeded/C*-*/> [<output file>]]
GLOB=${1:-seeded/C*-*/}
OUT=${2:-/verif/seeded/SWEEP.txt}
: > $OUT
for d in $GLOB; do
  id=$(basename $d); pid=${id%-*}
  also=""; [ -f $d/also_checked_by ] && also=$(cat $d/also_checked_by)
  if ! git -C /repo apply --check /verif/$d/patch.diff 2>/dev/null; then echo "$id DOES-NOT-APPLY" >> $OUT; continue; fi
  git -C /repo apply /verif/$d/patch.diff
  for c in $pid $also; do
    r=$(./check $c --no-evidence 2>&1)
    n=$(echo "$r" | grep -c '^VIOLATION')
    nf=$(echo "$r" | grep '^VIOLATION' | grep -vc 'no-failing-input-found')
    ex=$(echo "$r" | grep -o 'exit=[0-9]*' | tail -1)
    first=$(echo "$r" | grep '^VIOLATION' | head -1 | sed 's/.*replay=\/verif\/replays\///' | cut -c1-150)
    echo "$id check=$c $ex violations=$n with-replayed-input=$nf first=$first" >> $OUT
  done
  git -C /repo apply -R /verif/$d/patch.diff
done
git -C /repo status --short | grep -v egg-info >> $OUT
echo DONE >> $OUT

#!/usr/bin/env python3
"""tools/gen_sweep_table.py : rewrite the table of DESIGN.md 8.6 from seeded/SWEEP.txt and seeded/*/meta.json."""
import json, os, re
V = os.path.dirname(os.path.dirname(os.path.abspath(__file__)))
rows = {}
for line in open(os.path.join(V, "seeded/SWEEP.txt")):
    m = re.match(r"(C\d\d-\d) check=(C\d\d) exit=(\d) violations=(\d+) with-replayed-input=(\d+) first=(.*)", line.strip())
    if m:
        rows.setdefault(m.group(1), []).append(m.groups()[1:])
out = ["| seed | what it changes (short) | caught by | first reported obligation / stand-in | violations reported (of which with a failing input replayed on the real code) |", "|---|---|---|---|---|"]
for sid in sorted(rows):
    meta = json.load(open(os.path.join(V, "seeded", sid, "meta.json")))
    what = meta.get("what_changed", "").replace("|", "/").replace("\n", " ")
    what = what[:150] + ("..." if len(what) > 150 else "")
    caught = [r for r in rows[sid] if r[1] == "1"]
    if not caught:
        out.append(f"| {sid} | {what} | **not caught** | - | - |")
        continue
    first = caught[0][4].split(".json")[0].split("/", 1)[-1][:110]
    out.append(f"| {sid} | {what} | " + ", ".join(f"`./check {r[0]}`" for r in caught) + f" | `{first}` | " + "; ".join(f"{r[0]}: {r[2]} ({r[3]})" for r in caught) + " |")
p = os.path.join(V, "DESIGN.md")
s = open(p).read()
a = s.index("| seed | what it changes (short) |")
b = s.index("### 8.7 ")
s = s[:a] + "\n".join(out) + "\n\n" + s[b:]
open(p, "w").write(s)
print(len(out) - 2, "rows;", sum(1 for l in out if "not caught" in l), "not caught")

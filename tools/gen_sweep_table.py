#!/usr/bin/env python3
"""tools/gen_sweep_table.py : rewrite the two seed tables of DESIGN.md (8.6 round 1, 8.6b round 2) from seeded/SWEEP_ALL.txt
(the last sweep of all seeds, on scratch copies of the final tree), seeded/SWEEP2.txt (round 2 as first met, before the checks
were extended) and seeded/*/meta.json."""
import json, os, re
V = os.path.dirname(os.path.dirname(os.path.abspath(__file__)))
LINE = re.compile(r"(C\d\d-\d) check=(C\d\d) exit=(\d) violations=(\d+) with-replayed-input=(\d+) first=(.*)")


def read(fn):
    rows = {}
    p = os.path.join(V, "seeded", fn)
    if not os.path.exists(p):
        return rows
    for line in open(p):
        m = LINE.match(line.strip())
        if m:
            rows.setdefault(m.group(1), []).append(m.groups()[1:])
    return rows


def what(sid):
    meta = json.load(open(os.path.join(V, "seeded", sid, "meta.json")))
    t = (meta.get("what_changed") or "").replace("|", "/").replace("\n", " ")
    return t[:150] + ("..." if len(t) > 150 else "")


def caught_cell(rs):
    caught = [r for r in rs if r[1] == "1"]
    if not caught:
        und = [r for r in rs if r[1] == "2"]
        return ("**not reported**" + (" (undecided: " + ", ".join(r[0] for r in und) + ")" if und else ""), "-", "-")
    first = caught[0][4].split(".json")[0].split("/", 1)[-1][:110]
    return (", ".join(f"`./check {r[0]}`" for r in caught), f"`{first}`", "; ".join(f"{r[0]}: {r[2]} ({r[3]})" for r in caught))


final, first2, first3 = read("SWEEP_ALL.txt"), read("SWEEP2.txt"), read("SWEEP3.txt")
t1 = ["| seed | what it changes (short) | caught by | first reported obligation / stand-in | violations reported (of which with a failing input replayed on the real code) |", "|---|---|---|---|---|"]
t2 = ["| seed | what it changes (short) | as first met (checks as they were) | after the extensions: caught by | first reported obligation / stand-in | violations (with replayed input) |", "|---|---|---|---|---|---|"]
t3 = ["| seed | what it changes (short) | as first met (third round) | after the extensions: caught by | first reported obligation / stand-in | violations (with replayed input) |", "|---|---|---|---|---|---|"]
for sid in sorted(final):
    c = caught_cell(final[sid])
    if sid[-1] in "12":
        t1.append(f"| {sid} | {what(sid)} | {c[0]} | {c[1]} | {c[2]} |")
    elif sid[-1] in "34":
        f = caught_cell(first2.get(sid, []))
        t2.append(f"| {sid} | {what(sid)} | {f[0]} | {c[0]} | {c[1]} | {c[2]} |")
    else:
        f = caught_cell(first3.get(sid, []))
        t3.append(f"| {sid} | {what(sid)} | {f[0]} | {c[0]} | {c[1]} | {c[2]} |")
p = os.path.join(V, "DESIGN.md")
s = open(p).read()
a = s.index("| seed | what it changes (short) | caught by |")
b = s.index("### 8.6b ")
s = s[:a] + "\n".join(t1) + "\n\n" + s[b:]
a = s.index("| seed | what it changes (short) | as first met (checks as they were)")
b = s.index("### 8.6c ")
s = s[:a] + "\n".join(t2) + "\n\n" + s[b:]
a = s.index("| seed | what it changes (short) | as first met (third round)")
b = s.index("### 8.7 ")
s = s[:a] + "\n".join(t3) + "\n\n" + s[b:]
open(p, "w").write(s)
n1 = sum(1 for l in t1[2:] if "not reported" not in l)
n2 = sum(1 for l in t2[2:] if "not reported" not in l.split("|")[4])
nf = sum(1 for l in t2[2:] if "not reported" not in l.split("|")[3])
n3 = sum(1 for l in t3[2:] if "not reported" not in l.split("|")[4])
nf3 = sum(1 for l in t3[2:] if "not reported" not in l.split("|")[3])
print(f"round 1: {n1}/{len(t1) - 2} reported; round 2: first met {nf}/{len(t2) - 2}, now {n2}/{len(t2) - 2}; round 3: first met {nf3}/{len(t3) - 2}, now {n3}/{len(t3) - 2}")

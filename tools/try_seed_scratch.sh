#!/bin/sh
# tools/try_seed_scratch.sh <seed id, e.g. C07-3> <Cxx> [<Cyy> ...] : apply the seeded change to a scratch copy of /repo's HEAD
# (outside /repo and /verif, removed afterwards) and run the checks against that copy (PYVC_REPO).  Several can run in parallel.
ID="$1"; shift
S=/tmp/scr_seed_$ID
rm -rf $S; mkdir -p $S
git -C /repo archive HEAD | tar -x -C $S
(cd $S && git init -q . && git apply /verif/seeded/$ID/patch.diff) || { echo "$ID patch does not apply"; rm -rf $S; exit 9; }
for c in "$@"; do
  r=$(cd /verif && PYVC_REPO=$S ./check $c --no-evidence 2>&1)
  n=$(echo "$r" | grep -c '^VIOLATION')
  nf=$(echo "$r" | grep '^VIOLATION' | grep -vc 'no-failing-input-found')
  ex=$(echo "$r" | grep -o 'exit=[0-9]*' | tail -1)
  first=$(echo "$r" | grep '^VIOLATION' | head -1 | sed 's/.*replay=\/verif\/replays\///' | cut -c1-150)
  und=$(echo "$r" | grep '^UNDECIDED\|^CHECKER' | head -2 | cut -c1-300)
  echo "$ID check=$c $ex violations=$n with-replayed-input=$nf first=$first $und"
done
rm -rf $S

#!/usr/bin/env python3
"""Maintainer command (never run by a check): record which obligations are discharged on the current tree.
Usage: .venv/bin/python tools/make_ledger.py [C13 C12 ...]   (default: all claimed in MANIFEST.json)
       .venv/bin/python tools/make_ledger.py C05 --only legacy.wait_until   (run only the harnesses whose name contains the
       substring and ADD their discharged groups to the property's ledger entry: for newly written harnesses)"""
import json, os, subprocess, sys
HERE = os.path.dirname(os.path.dirname(os.path.abspath(__file__)))
sys.path.insert(0, HERE)
sys.setrecursionlimit(10000)
from pyvc import framework
only = None
if "--only" in sys.argv:
    i = sys.argv.index("--only")
    only = sys.argv[i + 1]
    del sys.argv[i:i + 2]
ids = sys.argv[1:] or [c["property_id"] for c in json.load(open(os.path.join(HERE, "MANIFEST.json")))["checks"]]
path = os.path.join(HERE, "baseline", "obligations.json")
os.makedirs(os.path.dirname(path), exist_ok=True)
led = json.load(open(path)) if os.path.exists(path) else {}
head = subprocess.run(["git", "-C", "/repo", "rev-parse", "HEAD"], capture_output=True, text=True).stdout.strip()
dirty = subprocess.run(["git", "-C", "/repo", "status", "--porcelain", "--", "custom_components"], capture_output=True, text=True).stdout.strip()
if dirty:
    sys.exit("refusing: /repo working tree differs from HEAD")
for pid in ids:
    code, info = framework.run_property(pid, tier="thorough", write_evidence=False, quiet=True, only=only)
    names = sorted(n for n, g in info["groups"].items() if g["kind"] != "canary" and g["discharged"] == g["n"])
    if only:
        names = sorted(set(names) | set(led.get(pid, {}).get("discharged", [])))
    led[pid] = {"repo_head": head, "discharged": names}
    print(pid, "exit", code, "discharged groups", len(names))
json.dump(led, open(path, "w"), indent=1)

#!/bin/sh
# tools/round4.sh Cxx [extra checks...] : confirm the round-4 seed of Cxx (k=6, written by a sub-agent under /tmp/wt4) and
# run the property's check (and any extra ones) against it on a scratch copy.  Appends to seeded/SWEEP4_first.txt.
P=$1; shift
cd /verif
SEED_ROOT=/tmp/wt4 .venv/bin/python tools/confirm_seed.py $P 6 2>&1 | tail -1 | cut -c1-200
[ -d seeded/$P-6 ] && tools/try_seed_scratch.sh $P-6 $P "$@" | tee -a seeded/SWEEP4_first.txt

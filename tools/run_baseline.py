#!/usr/bin/env python3
"""Run the pinned suite on /repo (guard off: there are no hooks) and compare with BASELINE.json stable_pass."""
import json, os, subprocess, sys, tempfile, xml.etree.ElementTree as ET
repo = sys.argv[1] if len(sys.argv) > 1 else "/repo"
base = json.load(open("/root/.vp/BASELINE.json"))
stable = set(base["stable_pass"])
with tempfile.TemporaryDirectory() as d:
    junit = os.path.join(d, "j.xml")
    subprocess.run(f"/venv/bin/python -m pytest -ra -q -p no:cacheprovider --timeout=900 --continue-on-collection-errors --junitxml={junit}",
                   shell=True, cwd=repo, capture_output=True, text=True)
    passed = set()
    for tc in ET.parse(junit).getroot().iter("testcase"):
        if not any(ch.tag in ("failure", "error", "skipped") for ch in tc):
            passed.add(f"{tc.get('classname')}::{tc.get('name')}")
missing = sorted(stable - passed)
print(f"stable_pass passing: {len(stable) - len(missing)}/{len(stable)}")
for m in missing:
    print("MISSING", m)
sys.exit(1 if missing else 0)
